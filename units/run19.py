"""Unit `run19` (C19, C02-runner, C11-runner semantics): the circuit runner fails safely.
Real text: circuit/src/tables/runner.rs CircuitRunner::{set_witness, witness_value, get_witness,
set_public_inputs, set_private_inputs, execute_all, execute_alu_op}."""
import re

from vf.extract import extract_item, match_brace
from vf.unit import Unit, unget_or_insert, inline_thunks, unok_or_else_q

PRELUDE = r'''
#![allow(unused_imports, unused_variables, dead_code, unused_mut, unused_parens)]
use vstd::prelude::*;
use std::collections::{HashMap, HashSet, BTreeMap, BTreeSet, VecDeque};

verus! {
// ---------------------------------------------------------------- abstract field (exec + spec)
pub trait Field: Sized + Copy {
    spec fn fadd(self, o: Self) -> Self;
    spec fn fmul(self, o: Self) -> Self;
    spec fn fsub(self, o: Self) -> Self;
    spec fn finv(self) -> Self;
    spec fn fzero() -> Self;
    spec fn fone() -> Self;
    proof fn sub_add(a: Self, b: Self) ensures a.fsub(b).fadd(b) == a, b.fadd(a.fsub(b)) == a;       // (a-b)+b = a
    proof fn mul_inv_cancel(a: Self, b: Self) requires a != Self::fzero() ensures a.fmul(b.fmul(a.finv())) == b; // a*(b*a^-1) = b
    fn zero() -> (r: Self) ensures r == Self::fzero();
    fn one() -> (r: Self) ensures r == Self::fone();
    fn add(self, o: Self) -> (r: Self) ensures r == self.fadd(o);
    fn mul(self, o: Self) -> (r: Self) ensures r == self.fmul(o);
    fn sub(self, o: Self) -> (r: Self) ensures r == self.fsub(o);
    fn try_inverse(&self) -> (r: Option<Self>) ensures (*self == Self::fzero()) == r.is_none(), r.is_some() ==> r.unwrap() == self.finv();
    fn eq(&self, o: &Self) -> (r: bool) ensures r == (*self == *o);
}

// ---------------------------------------------------------------- opaque executors
pub struct NpoPrivateData { pub _p: () }
pub struct OpStateMap { pub _p: () }
pub struct EnabledOps { pub _p: () }
pub struct NpoTypeId { pub _p: () }
#[derive(Clone, Copy, PartialEq, Eq, Structural)]
pub struct NonPrimitiveOpId(pub u32);

/// a slot that is set keeps its value; the table keeps its length
pub open spec fn monotone<F>(a: Seq<Option<F>>, b: Seq<Option<F>>) -> bool {
    a.len() == b.len() && forall|i: int| 0 <= i < a.len() && (#[trigger] a[i]).is_some() ==> b[i] == a[i]
}

pub struct ExecutionContext<'a, F> {
    pub witness: &'a mut Vec<Option<F>>,
}
impl<'a, F> ExecutionContext<'a, F> {
    #[verifier::external_body]
    pub fn new(witness: &'a mut Vec<Option<F>>, pd: &'a Vec<Option<NpoPrivateData>>, ops: &'a EnabledOps, op_id: NonPrimitiveOpId, st: &'a mut OpStateMap) -> (r: Self)
        ensures *r.witness == *old(witness), *final(r.witness) == *final(witness)
    { unimplemented!() }
}
/// ASSUMED of every executor: it only writes through the checked accessors, hence monotonically
pub trait HintExecutor<F> {
    fn execute(&self, inputs: &Vec<WitnessId>, outputs: &Vec<WitnessId>, witness: &mut Vec<Option<F>>) -> (r: Result<(), CircuitError>)
        ensures monotone(old(witness)@, final(witness)@);
}
pub trait NonPrimitiveExecutor<F> {
    fn execute(&self, inputs: &Vec<Vec<WitnessId>>, outputs: &Vec<Vec<WitnessId>>, ctx: &mut ExecutionContext<'_, F>) -> (r: Result<(), CircuitError>)
        ensures monotone(old(ctx).witness@, final(ctx).witness@), *final(final(ctx).witness) == *final(old(ctx).witness);
}

/// error variants used by the runner (names and payload ids as in circuit/src/errors.rs; message strings dropped: R8)
pub enum CircuitError {
    PublicInputLengthMismatch { expected: usize, got: usize },
    MissingPublicRowsMapping,
    PrivateInputLengthMismatch { expected: usize, got: usize },
    MissingPrivateRowsMapping,
    PublicInputNotSet { witness_id: WitnessId },
    WitnessNotSet { witness_id: WitnessId },
    WitnessIdOutOfBounds { witness_id: WitnessId },
    WitnessConflict { witness_id: WitnessId },
    InvalidBitValue { input_witness_id: WitnessId },
    DivisionByZero,
    Other,
}

// ---------------------------------------------------------------- types cut from /repo
@@TYPES@@

/// the fields of Circuit<F> the runner functions under contract read (types as in circuit/src/circuit.rs)
#[verifier::reject_recursive_types(F)]
pub struct Circuit<F> {
    pub witness_count: u32,
    pub ops: Vec<Op<F>>,
    pub public_rows: Vec<WitnessId>,
    pub public_flat_len: usize,
    pub private_input_rows: Vec<WitnessId>,
    pub private_flat_len: usize,
    pub enabled_ops: EnabledOps,
}
pub struct AluOpRecord<F> {
    pub kind: AluOpKind, pub a_index: WitnessId, pub b_index: WitnessId, pub c_index: WitnessId, pub out_index: WitnessId,
    pub a_val: F, pub b_val: F, pub c_val: F, pub out_val: F,
}
#[verifier::reject_recursive_types(F)]
pub struct CircuitRunner<'a, F> {
    pub circuit: &'a Circuit<F>,
    pub witness: Vec<Option<F>>,
    pub witness_rewrite: Option<HashMap<WitnessId, WitnessId>>,
    pub non_primitive_op_private_data: Vec<Option<NpoPrivateData>>,
    pub non_primitive_op_index_by_id: Vec<Option<usize>>,
    pub op_states: OpStateMap,
}

/// `v.get(i).and_then(|x| *x)`
pub fn op_index_lookup(v: &Vec<Option<usize>>, i: usize) -> (r: Option<usize>) ensures r == (if i < v@.len() { v@[i as int] } else { None }) { if i < v.len() { v[i] } else { None } }
/// execute_all is public and run() calls it again: the per-op state (Poseidon / recompose rows) of a first call is kept and every non-primitive row is recorded twice
pub uninterp spec fn no_op_of_the_circuit_was_executed_yet<F>(r: &CircuitRunner<'_, F>) -> bool;
pub mod ax {
    use super::*;
    pub broadcast axiom fn witness_id_key_model()
        ensures #[trigger] vstd::std_specs::hash::obeys_key_model::<WitnessId>();
}

pub open spec fn rwmap(o: Option<HashMap<WitnessId, WitnessId>>) -> Map<WitnessId, WitnessId> {
    match o { Some(m) => m@, None => Map::empty() }
}
// ---------------------------------------------------------------- specification vocabulary
pub open spec fn slot<F>(w: Seq<Option<F>>, id: WitnessId) -> Option<F> {
    if (id.0 as int) < w.len() { w[id.0 as int] } else { None }
}
pub open spec fn oslot<F: Field>(w: Seq<Option<F>>, o: Option<WitnessId>) -> Option<F> {
    match o { Some(x) => slot(w, x), None => Some(F::fzero()) }
}
/// every operand of the ALU op is set and the values satisfy the op's relation
pub open spec fn alu_holds<F: Field>(w: Seq<Option<F>>, kind: AluOpKind, a: WitnessId, b: WitnessId, c: Option<WitnessId>, out: WitnessId, io: Option<WitnessId>) -> bool {
    &&& slot(w, a).is_some() && slot(w, out).is_some()
    &&& match kind {
        AluOpKind::Add => slot(w, b).is_some() && slot(w, a).unwrap().fadd(slot(w, b).unwrap()) == slot(w, out).unwrap(),
        AluOpKind::Mul => slot(w, b).is_some() && slot(w, a).unwrap().fmul(slot(w, b).unwrap()) == slot(w, out).unwrap(),
        // the value is boolean (the table's constraint a*(a-1) = 0, C11) and copied to `out`; a non-boolean value conflicts with the circuit (C19)
        AluOpKind::BoolCheck => slot(w, out) == slot(w, a) && slot(w, a).unwrap().fmul(slot(w, a).unwrap().fsub(F::fone())) == F::fzero(),
        AluOpKind::MulAdd => slot(w, b).is_some() && oslot(w, c).is_some()
            && slot(w, a).unwrap().fmul(slot(w, b).unwrap()).fadd(oslot(w, c).unwrap()) == slot(w, out).unwrap()
            && (io.is_some() ==> slot(w, io.unwrap()) == Some(slot(w, a).unwrap().fmul(slot(w, b).unwrap()))),
        AluOpKind::HornerAcc => slot(w, b).is_some() && c.is_some() && io.is_some() && oslot(w, c).is_some() && oslot(w, io).is_some()
            && oslot(w, io).unwrap().fmul(slot(w, b).unwrap()).fadd(oslot(w, c).unwrap()).fsub(slot(w, a).unwrap()) == slot(w, out).unwrap(),
    }
}
/// what a successful execution of one op leaves in the witness table
pub open spec fn op_done<F: Field>(w: Seq<Option<F>>, op: Op<F>) -> bool {
    match op {
        Op::Const { out, val } => slot(w, out) == Some(val),
        Op::Public { out, .. } => slot(w, out).is_some(),
        Op::Alu { kind, a, b, c, out, intermediate_out } => alu_holds(w, kind, a, b, c, out, intermediate_out),
        _ => true,
    }
}
pub open spec fn wf_op<F>(op: Op<F>) -> bool {
    match op {
        Op::Alu { kind, c, intermediate_out, .. } => kind is HornerAcc ==> c.is_some() && intermediate_out.is_some(),
        _ => true,
    }
}
pub open spec fn op_slots_in_range<F>(op: Op<F>, n: int) -> bool {
    match op {
        Op::Public { out, .. } => (out.0 as int) < n,
        _ => true,
    }
}
proof fn lemma_slots_mono<F>(a: Seq<Option<F>>, b: Seq<Option<F>>)
    requires monotone(a, b)
    ensures forall|id: WitnessId| (#[trigger] slot(a, id)).is_some() ==> slot(b, id) == slot(a, id)
{
    assert forall|id: WitnessId| (#[trigger] slot(a, id)).is_some() implies slot(b, id) == slot(a, id) by {
        assert(a[id.0 as int].is_some());
    }
}
proof fn lemma_monotone_trans<F>(a: Seq<Option<F>>, b: Seq<Option<F>>, c: Seq<Option<F>>)
    requires monotone(a, b), monotone(b, c) ensures monotone(a, c)
{
    assert forall|i: int| 0 <= i < a.len() && (#[trigger] a[i]).is_some() implies c[i] == a[i] by { assert(b[i] == a[i]); }
}
proof fn lemma_op_done_monotone<F: Field>(a: Seq<Option<F>>, b: Seq<Option<F>>, op: Op<F>)
    requires monotone(a, b), op_done(a, op) ensures op_done(b, op)
{
    match op {
        Op::Alu { kind, a: x, b: y, c, out, intermediate_out } => {
            lemma_slots_mono(a, b);
        }
        Op::Const { out, .. } => { lemma_slots_mono(a, b); }
        Op::Public { out, .. } => { lemma_slots_mono(a, b); }
        _ => {}
    }
}
} // verus!
'''


def types_from_repo():
    t = []
    t.append('#[derive(Clone, Copy, PartialEq, Eq, Hash, Structural)]\n' + extract_item('circuit/src/types.rs', r'pub struct WitnessId\b'))
    t.append('#[derive(Clone, Copy, PartialEq, Eq, Hash, Structural)]\n' + extract_item('circuit/src/ops/op.rs', r'pub enum AluOpKind\b'))
    t.append('#[verifier::reject_recursive_types(F)]\n' + extract_item('circuit/src/ops/op.rs', r'pub enum Op<F>'))
    return '\n\n'.join(t)


def build():
    u = Unit('run19', ['C19', 'C02', 'C11'])
    u.rlimit = 80
    u.assume('hint / non-primitive executors are opaque; ASSUMED to write witness slots only monotonically (they go through ExecutionContext::set_witness, which Kani proves monotone)')
    u.assume('Circuit<F> is represented by the fields the runner reads; error message strings dropped (R8)')
    u.assume('field laws used: (a-b)+b = a and a*(b*a^-1) = b for a != 0')
    u.text(PRELUDE.replace('@@TYPES@@', types_from_repo()))
    u.text('verus! { broadcast use {ax::witness_id_key_model, vstd::std_specs::hash::group_hash_axioms}; }')
    u.text(open(__file__.replace('run19.py', 'rw_spec.rs')).read())
    # WitnessId::resolve, same contract as in unit opt
    rs = u.extract('circuit/src/types.rs', r'impl WitnessId', 'resolve', 'WitnessId::resolve')
    rs.sig_rewrite('R7', 'hashbrown::HashMap<Self, Self>', 'HashMap<WitnessId, WitnessId>')
    rs.sig_rewrite('R12', '-> Self', '-> WitnessId')
    rs.rewrite('R4', 'while let Some(&next) = rewrite.get(&cur) { cur = next; }',
               'loop { match rewrite.get(&cur) { Some(next) => { cur = *next; } None => { break; } } }')
    rs.requires('acyclic', 'acyclic(rewrite@)')
    rs.ensures('root_fn', 'ret == root(rewrite@, self) && root_of(rewrite@, self, ret)')
    rs.at_start('''
        let ghost (stamp, bound) = choose|stamp: Map<WitnessId, nat>, bound: nat| stamped(rewrite@, stamp, bound);
        let ghost mut steps: nat = 0;
    ''')
    rs.loop('loop {', invariant_except_break=[
        ('stamped', 'stamped(rewrite@, stamp, bound)'), ('on_chain', 'iter(rewrite@, self, steps) == cur'),
    ], ensures=[('exit_root', '!rewrite@.dom().contains(cur)'), ('exit_chain', 'iter(rewrite@, self, steps) == cur')],
        decreases='if rewrite@.dom().contains(cur) { bound - stamp[cur] } else { 0 }')
    rs.before('cur = *next;', '''proof {
        lemma_iter_step(rewrite@, self, steps); steps = steps + 1;
        assert(rewrite@.dom().contains(cur) && rewrite@[cur] == *next);
        assert(stamp[cur] < bound);
        if rewrite@.dom().contains(*next) { assert(stamp[cur] < stamp[rewrite@[cur]]); }
    }''')
    rs.at_end_expr('cur', 'proof { lemma_root(rewrite@, self, cur); }')
    u.text('verus! {\nimpl WitnessId {')
    u.emit(rs)
    u.text('}\n}')
    R = 'circuit/src/tables/runner.rs'
    IMPL = r"impl<'a, F: Field> CircuitRunner<'a, F>"

    sw = u.extract(R, IMPL, 'set_witness', 'CircuitRunner::set_witness')
    sw.rewrite('R11', 'if *existing_value == value {', 'if existing_value.eq(&value) {')
    sw.rewrite('R8', 'let expr_ids = vec![];', '')
    sw.rewrite('R8', 'CircuitError::WitnessConflict { witness_id: widx, existing: format!("{existing_value:?}"), new: format!("{value:?}"), expr_ids, }',
               'CircuitError::WitnessConflict { witness_id: widx }')
    sw.ensures('monotone', 'monotone(old(self).witness@, final(self).witness@)')
    sw.ensures('only_that_slot', 'forall|i: int| 0 <= i < old(self).witness@.len() && i != widx.0 ==> final(self).witness@[i] == old(self).witness@[i]')
    sw.ensures('ok_iff_fresh_or_equal', '''ret is Ok <==> ((widx.0 as int) < old(self).witness@.len()
            && (old(self).witness@[widx.0 as int].is_none() || old(self).witness@[widx.0 as int] == Some(value)))''')
    sw.ensures('ok_sets', 'ret is Ok ==> slot(final(self).witness@, widx) == Some(value)')
    sw.ensures('err_changes_nothing', 'ret is Err ==> final(self).witness@ == old(self).witness@')
    sw.ensures('frame', 'final(self).circuit == old(self).circuit && final(self).witness_rewrite == old(self).witness_rewrite')

    wv = u.extract(R, IMPL, 'witness_value', 'CircuitRunner::witness_value')
    wv.rewrite('R6', 'self.witness .get(widx.0 as usize) .and_then(|opt| opt.as_ref().map(Dup::dup))',
               '(if (widx.0 as usize) < self.witness.len() { match &self.witness[widx.0 as usize] { Some(v_) => Some(*v_), None => None } } else { None })')
    wv.ensures('reads_slot', 'ret == slot(self.witness@, widx)')
    gw = u.extract(R, IMPL, 'get_witness', 'CircuitRunner::get_witness')
    gw.rewrite('R6', 'self.witness_value(widx) .ok_or(CircuitError::WitnessNotSet { witness_id: widx })',
               '(match self.witness_value(widx) { Some(v_) => Ok(v_), None => Err(CircuitError::WitnessNotSet { witness_id: widx }) })')
    gw.ensures('ok_iff_set', 'ret is Ok <==> slot(self.witness@, widx).is_some()')
    gw.ensures('value', 'ret matches Ok(v) ==> Some(v) == slot(self.witness@, widx)')

    def inputs_fn(name, rows, flat):
        f = u.extract(R, IMPL, name, f'CircuitRunner::{name}')
        vals = 'public_values' if 'public' in name else 'private_values'
        # R5 loop-form normalisations (each applies where the idiom occurs)
        f.rewrite_re('R5', r'for \((\w+), (\w+)\) in (\w+)\.iter\(\)\.enumerate\(\) \{', r'for \1 in 0..\3.len() { let \2 = &\3[\1];')
        f.rewrite_re('R5', r'for \(&(\w+), (\w+)\) in ([\w.]+)\.iter\(\)\.zip\((\w+)\) \{',
                     r'for i in 0..(if \3.len() <= \4.len() { \3.len() } else { \4.len() }) { let \1 = \3[i]; let \2 = &\4[i];')
        # R6: `let s = V.get_mut(I).ok_or(E)?; *s = X;` -> bounds-checked indexed store
        f.rewrite_re('R6', r'let (\w+) = ([\w.\s]+?)\s*\.get_mut\(([^;]+?)\)\s*\.ok_or\(([^;]+?)\)\?;\s*\*\1 = ([^;]+);',
                     r'if (\3) < \2.len() { \2[\3] = \5; } else { return Err(\4); }', flags_dotall=True)
        f.ensures('monotone', 'monotone(old(self).witness@, final(self).witness@) && final(self).circuit == old(self).circuit')
        f.ensures('wrong_length_is_error', f'{vals}@.len() != old(self).circuit.{flat} ==> ret is Err && final(self).witness@ == old(self).witness@')
        f.ensures('ok_places_every_value', f'ret is Ok ==> {vals}@.len() == old(self).circuit.{rows}@.len() && forall|i: int| 0 <= i < {vals}@.len() ==> slot(final(self).witness@, #[trigger] old(self).circuit.{rows}@[i]) == Some({vals}@[i])')
        # structural anchors: loop head, loop body start, loop body end
        lo = f._loop_open('for i in 0..')
        f.body = f.body[:lo + 1] + ' let ghost w_before = self.witness@; ' + f.body[lo + 1:]
        f.at_loop_end('for i in 0..', '''proof {
                lemma_monotone_trans(old(self).witness@, w_before, self.witness@);
                assert forall|k: int| 0 <= k < i implies slot(self.witness@, #[trigger] self.circuit.%s@[k]) == Some(%s@[k]) by {
                    let id = self.circuit.%s@[k];
                    assert(slot(w_before, id) == Some(%s@[k]));
                    assert(w_before[id.0 as int].is_some());
                }
            }''' % (rows, vals, rows, vals))
        f.loop('for i in 0..', invariants=[
            ('mono', 'monotone(old(self).witness@, self.witness@) && self.circuit == old(self).circuit'),
            ('len', f'{vals}@.len() == self.circuit.{rows}@.len() && {vals}@.len() == self.circuit.{flat}'),
            ('placed', f'forall|k: int| 0 <= k < i ==> slot(self.witness@, #[trigger] self.circuit.{rows}@[k]) == Some({vals}@[k])'),
        ])
        return f
    sp = inputs_fn('set_public_inputs', 'public_rows', 'public_flat_len')
    spr = inputs_fn('set_private_inputs', 'private_input_rows', 'private_flat_len')

    # ---------------------------------------------------------------- set_private_data: the private-data channel of the non-primitive ops (a second payload for one op is a conflict)
    pd = u.extract(R, IMPL, 'set_private_data', 'CircuitRunner::set_private_data')
    inline_thunks(pd)
    pd.erase_struct_error('CircuitError::NonPrimitiveOpIdOutOfRange', 'CircuitError::Other')
    pd.erase_struct_error('CircuitError::IncorrectNonPrimitiveOpPrivateData', 'CircuitError::Other')
    pd.rewrite_re('R6', r'self\s*\.non_primitive_op_index_by_id\s*\.get\(op_id\.0 as usize\)\s*\.and_then\(\|x\| \*x\)', 'op_index_lookup(&self.non_primitive_op_index_by_id, op_id.0 as usize)', min_count=0)
    unok_or_else_q(pd)
    pd.rewrite_re('R6', r'let (\w+) = ([\w.\s]+?)\s*\.get_mut\(([^;]+?)\)\s*\.ok_or(?:_else)?\(([^;]+?)\)\?;\s*\*\1 = ([^;]+);',
                  lambda m: f'if ({m.group(3)}) < {m.group(2).strip()}.len() {{ {m.group(2).strip()}.set({m.group(3)}, {m.group(5)}); }} else {{ return Err({m.group(4).removeprefix("||").strip()}); }}', flags_dotall=True, min_count=0)
    pd.rewrite_re('R7', r'(self\.non_primitive_op_private_data)\[([^\]]+)\] = (Some\(\w+\));', r'\1.set(\2, \3);', min_count=0)
    pd.rewrite_re('R11', r'let Op::NonPrimitiveOpWithExecutor \{ executor, \.\. \} = &self\.circuit\.ops\[op_idx\] else \{', 'let Op::NonPrimitiveOpWithExecutor { .. } = &self.circuit.ops[op_idx] else {', min_count=0)
    pd.requires('index_table_points_into_the_op_list', 'forall|i: int| 0 <= i < old(self).non_primitive_op_index_by_id@.len() ==> ((#[trigger] old(self).non_primitive_op_index_by_id@[i]) matches Some(k) ==> k < old(self).circuit.ops@.len())')
    PD, PD0 = 'final(self).non_primitive_op_private_data@', 'old(self).non_primitive_op_private_data@'
    pd.ensures('a_second_payload_for_the_same_op_is_an_error', f'(op_id.0 as int) < {PD0}.len() && {PD0}[op_id.0 as int] is Some ==> ret is Err')
    pd.ensures('ok_stores_the_payload_in_the_ops_own_empty_slot', f'ret is Ok ==> (op_id.0 as int) < {PD0}.len() && {PD0}[op_id.0 as int] is None && {PD} == {PD0}.update(op_id.0 as int, Some(private_data))')
    pd.ensures('err_changes_nothing', f'ret is Err ==> {PD} == {PD0}')
    pd.ensures('frame', 'final(self).witness@ == old(self).witness@ && final(self).circuit == old(self).circuit && final(self).non_primitive_op_index_by_id == old(self).non_primitive_op_index_by_id')

    # ---------------------------------------------------------------- execute_alu_op
    ea = u.extract(R, IMPL, 'execute_alu_op', 'CircuitRunner::execute_alu_op')
    ea.rewrite_re('R11', r'\bF::ZERO\b', 'F::zero()')
    ea.rewrite_re('R11', r'\bF::ONE\b', 'F::one()', min_count=0)
    ea.rewrite_re('R11-op', r'if (\w+) \* \(\1 - F::one\(\)\) != F::zero\(\) \{', r'if !\1.mul(\1.sub(F::one())).eq(&F::zero()) {', min_count=0)
    ea.rewrite_re('R8', r'CircuitError::InvalidBitValue \{\s*input_witness_id: (\w+),\s*bit_value: format!\("[^"]*"\),?\s*\}', r'CircuitError::InvalidBitValue { input_witness_id: \1 }', min_count=0)
    ea.rewrite('R11-op', 'let result = a_val + b_val;', 'let result = a_val.add(b_val);')
    ea.rewrite('R11-op', 'let b_val = out_val - a_val;', 'let b_val = out_val.sub(a_val);')
    ea.rewrite('R11-op', 'let result = a_val * b_val;', 'let result = a_val.mul(b_val);')
    ea.rewrite('R11-op', 'let b_val = result_val * a_inv;', 'let b_val = result_val.mul(a_inv);')
    ea.rewrite('R11-op', 'let ab_product = a_val * b_val;', 'let ab_product = a_val.mul(b_val);')
    ea.rewrite('R11-op', 'let out_val = ab_product + c_val;', 'let out_val = ab_product.add(c_val);')
    ea.rewrite('R11-op', 'let result = acc_val * b_val + c_val - a_val;', 'let result = acc_val.mul(b_val).add(c_val).sub(a_val);')
    # R6 (general): `X.ok_or(E)?` -> match with early return;  `X.try_inverse().unwrap_or(D)` -> match
    ea.rewrite_re('R6', r'(\w+\.try_inverse\(\))\s*\.ok_or\(([^()]+)\)\?', r'(match \1 { Some(i_) => i_, None => { return Err(\2); } })', min_count=0)
    ea.rewrite_re('R6', r'(\w+\.try_inverse\(\))\s*\.unwrap_or\(([^()]+)\)', r'(match \1 { Some(i_) => i_, None => \2 })', min_count=0)
    ea.rewrite_re('R11', r'\bF::ZERO\b', 'F::zero()', min_count=0)
    ea.rewrite('R9', 'intermediate_out.expect("HornerAcc requires acc in intermediate_out")', 'intermediate_out.unwrap()')
    ea.rewrite('R9', 'c.expect("HornerAcc requires c operand")', 'c.unwrap()')
    ea.rewrite('R6', 'c.unwrap_or(WitnessId(0))', '(match c { Some(x_) => x_, None => WitnessId(0) })')
    ea.requires('horner_shape', 'kind is HornerAcc ==> c.is_some() && intermediate_out.is_some()')
    ea.ensures('monotone', 'monotone(old(self).witness@, final(self).witness@) && final(self).circuit == old(self).circuit && final(self).witness_rewrite == old(self).witness_rewrite')
    ea.ensures('ok_means_relation_holds', 'ret is Ok ==> alu_holds(final(self).witness@, kind, a, b, c, out, intermediate_out)')
    ea.ensures('record_matches_witness', '''ret matches Ok(r) ==> r.kind == kind && r.a_index == a && r.b_index == b && r.out_index == out
            && Some(r.a_val) == slot(final(self).witness@, a) && Some(r.out_val) == slot(final(self).witness@, out)''')
    ea.ensures('division_by_zero_is_error', '''kind is Mul && slot(old(self).witness@, b).is_none() && slot(old(self).witness@, a) == Some(F::fzero())
            && slot(old(self).witness@, out).is_some() ==> ret is Err''')
    ea.at_start('let ghost w0 = self.witness@;')
    ea.rewrite_re('SPEC', r'(self\.set_witness\([^;]*\)\?;)', r'let ghost wp_ = self.witness@; \1 proof { lemma_slots_mono(wp_, self.witness@); }', min_count=6)
    ea.after('let b_val = out_val.sub(a_val);', 'proof { F::sub_add(out_val, a_val); }')
    ea.after('let b_val = result_val.mul(a_inv);', 'proof { F::mul_inv_cancel(a_val, result_val); }')

    # ---------------------------------------------------------------- execute_all
    ex = u.extract(R, IMPL, 'execute_all', 'CircuitRunner::execute_all')
    ex.rewrite_re('R5', r'for &(\w+) in &self\.circuit\.private_input_rows \{', r'for pi_ in 0..self.circuit.private_input_rows.len() { let \1 = self.circuit.private_input_rows[pi_];', min_count=0)
    ex.ensures('a_withheld_private_input_is_an_error', '(exists|i: int| 0 <= i < old(self).circuit.private_input_rows@.len() && slot(old(self).witness@, #[trigger] old(self).circuit.private_input_rows@[i]).is_none()) ==> ret is Err')
    if 'for pi_ in 0..self.circuit.private_input_rows.len()' in ex.body:
        ex.loop('for pi_ in 0..self.circuit.private_input_rows.len()', invariants=[
            ('supplied_so_far', '*self == *old(self) && forall|i: int| 0 <= i < pi_ ==> slot(self.witness@, #[trigger] self.circuit.private_input_rows@[i]).is_some()')])
    ex.rewrite('R5', 'for op in &self.circuit.ops {', 'for oi_ in 0..self.circuit.ops.len() { let op = &self.circuit.ops[oi_];')
    ex.rewrite('R6', 'executor.execute(inputs, outputs, &mut self.witness)?;', 'executor.execute(inputs, outputs, &mut self.witness)?;')
    ex.requires('ops_well_formed', 'forall|k: int| 0 <= k < old(self).circuit.ops@.len() ==> wf_op(#[trigger] old(self).circuit.ops@[k]) && op_slots_in_range(old(self).circuit.ops@[k], old(self).witness@.len() as int)')
    ex.ensures('monotone', 'monotone(old(self).witness@, final(self).witness@) && final(self).circuit == old(self).circuit && final(self).witness_rewrite == old(self).witness_rewrite')
    ex.ensures('ok_means_every_op_done', 'ret is Ok ==> forall|k: int| 0 <= k < old(self).circuit.ops@.len() ==> op_done(final(self).witness@, #[trigger] old(self).circuit.ops@[k])')
    ex.loop('for oi_ in 0..self.circuit.ops.len()', invariants=[
        ('mono', 'monotone(old(self).witness@, self.witness@) && self.circuit == old(self).circuit && self.witness_rewrite == old(self).witness_rewrite'),
        ('wf', 'forall|k: int| 0 <= k < self.circuit.ops@.len() ==> wf_op(#[trigger] self.circuit.ops@[k]) && op_slots_in_range(self.circuit.ops@[k], old(self).witness@.len() as int)'),
        ('done', 'forall|k: int| 0 <= k < oi_ ==> op_done(self.witness@, #[trigger] self.circuit.ops@[k])'),
    ])
    ex.after('let op = &self.circuit.ops[oi_];', 'let ghost w_before = self.witness@; proof { assert(wf_op(self.circuit.ops@[oi_ as int])); }')
    ex.rewrite('SPEC-loop-tail', 'executor.execute(inputs, outputs, &mut ctx)?; } } }', '''executor.execute(inputs, outputs, &mut ctx)?; } }
            proof {
                lemma_monotone_trans(old(self).witness@, w_before, self.witness@);
                assert forall|k: int| 0 <= k < oi_ implies op_done(self.witness@, #[trigger] self.circuit.ops@[k]) by {
                    lemma_op_done_monotone(w_before, self.witness@, self.circuit.ops@[k]);
                }
            }
        }''')

    # ---------------------------------------------------------------- run: prefix up to the witness trace (R13)
    rn = u.extract(R, IMPL, 'run', 'CircuitRunner::run[prefix]')
    rn.sig_rewrite('R2', 'mut self', 'self')
    rn.sig_rewrite('R13', '-> Result<Traces<F>, CircuitError>', '-> Result<Vec<F>, CircuitError>')
    rn.rewrite_re('R2', r'\bself\.', 'self_.', min_count=4)
    rn.at_start('let mut self_ = self; proof { assert(no_op_of_the_circuit_was_executed_yet(&self_)); } // @@A:H_run_is_the_first_execution_of_the_op_list')
    rn.truncate_after('let witness_trace = WitnessTrace::new(witness_values);', 'Ok(witness_values)',
                      'suffix builds const/public/alu/non-primitive traces from the (no longer modified) witness table')
    rn.rewrite('R13', 'let witness_trace = WitnessTrace::new(witness_values);', '')
    rn.rewrite_re('R6m', r'let mut resolved: HashMap<WitnessId, WitnessId> = HashMap::with_capacity\(rewrite\.len\(\)\);\s*let mut root = \|canon: WitnessId\| \{.*?\}\)\s*\};',
                  '/* memoised closure `root` = WitnessId::resolve on `rewrite` (memo elided: pure function) */', min_count=1, flags_dotall=True)
    rn.rewrite('R6m', 'let r = root(*canon);', 'let r = canon.resolve(&rewrite);')
    rn.rewrite('R5', 'for (dup, canon) in &rewrite {', 'for (dup, canon) in it: rewrite.iter() {')
    m_ = re.search(r'if let Some\(ref (\w+)\) = ([^{]+?) \{', rn.body)
    if m_:
        # R1 (generic): `if let Some(ref V) = E { .. *V .. }` -> `if let Some(V) = E { .. V .. }` (V is Copy)
        o_ = m_.end() - 1; c_ = match_brace(rn.body, o_)
        rn.body = rn.body[:m_.start()] + f'if let Some({m_.group(1)}) = {m_.group(2)} {{' + re.sub(r'\*' + m_.group(1) + r'\b', m_.group(1), rn.body[o_ + 1:c_]) + rn.body[c_:]
        rn.rewrites.append(('R1', '`if let Some(ref V) = E { .. *V .. }` -> by-value binding', ''))
    unget_or_insert(rn)
    rn.rewrite('R5', 'for (i, value) in self_.witness.iter().enumerate() { witness_values.push((*value).ok_or(CircuitError::WitnessNotSetForIndex { index: i })?); }',
               'for i in 0..self_.witness.len() { let value = &self_.witness[i]; witness_values.push(match *value { Some(v_) => v_, None => { return Err(CircuitError::Other); } }); }')
    rn.requires('ops_well_formed', 'forall|k: int| 0 <= k < self.circuit.ops@.len() ==> wf_op(#[trigger] self.circuit.ops@[k]) && op_slots_in_range(self.circuit.ops@[k], self.witness@.len() as int)')
    rn.requires('rewrite_acyclic_in_range', '''acyclic(rwmap(self.witness_rewrite)) && forall|k: WitnessId| #![auto] rwmap(self.witness_rewrite).dom().contains(k) ==>
            (root(rwmap(self.witness_rewrite), rwmap(self.witness_rewrite)[k]).0 as int) < self.witness@.len()''')
    rn.ensures('ok_means_every_slot_was_set', 'ret matches Ok(v) ==> v@.len() == self.witness@.len()')
    rn.ensures('ok_means_rewritten_slots_equal_their_root', '''ret matches Ok(v) ==> ({ let rw = rwmap(self.witness_rewrite);
            forall|d: WitnessId| #![auto] rw.dom().contains(d) && (d.0 as int) < v@.len() ==> v@[d.0 as int] == v@[root(rw, rw[d]).0 as int] })''')
    rn.after('let alu_records = self_.execute_all()?;', 'let ghost w_exec = self_.witness@; let ghost rw0 = rwmap(self.witness_rewrite); proof { assert(self_.witness_rewrite == self.witness_rewrite); }')
    rn.at_loop_end('for (dup, canon) in it: rewrite.iter()', '''
                proof {
                    lemma_monotone_trans(w_exec, w_b, self_.witness@);
                    lemma_slots_mono(w_b, self_.witness@);
                    assert forall|i: int| 0 <= i < k_ + 1 implies ({ let d = *(#[trigger] it.seq()[i]).0; let r2 = root(rewrite@, rewrite@[d]);
                            slot(self_.witness@, r2).is_some() ==> slot(self_.witness@, d) == slot(self_.witness@, r2) }) by {
                        let d = *it.seq()[i].0; let r2 = root(rewrite@, rewrite@[d]);
                        assert(rewrite@.contains_key(d));
                        lemma_root_total(rewrite@, rewrite@[d]);
                        assert(r2 != *dup);                     // roots are never rewritten, the loop only writes rewritten slots
                        assert(slot(self_.witness@, r2) == slot(w_b, r2));
                        if d != *dup { assert(slot(self_.witness@, d) == slot(w_b, d)); }
                    }
                }
''')
    rn.loop('for (dup, canon) in it: rewrite.iter()', invariants=[
        ('mono', 'monotone(w_exec, self_.witness@) && self_.circuit == self.circuit && rewrite@ == rw0 && acyclic(rw0) && self_.witness@.len() == self.witness@.len()'),
        ('range', 'forall|k: WitnessId| #![auto] rw0.dom().contains(k) ==> (root(rw0, rw0[k]).0 as int) < self.witness@.len()'),
        ('pairs', 'forall|i: int| 0 <= i < it.seq().len() ==> rewrite@.contains_key(*(#[trigger] it.seq()[i]).0) && rewrite@[*it.seq()[i].0] == *it.seq()[i].1'),
        ('all_keys', 'forall|k: WitnessId| rewrite@.contains_key(k) ==> exists|i: int| 0 <= i < it.seq().len() && *(#[trigger] it.seq()[i]).0 == k'),
        ('done', '''forall|i: int| 0 <= i < it.index@ ==> ({ let d = *(#[trigger] it.seq()[i]).0; let r = root(rewrite@, rewrite@[d]);
                    slot(self_.witness@, r).is_some() ==> slot(self_.witness@, d) == slot(self_.witness@, r) })'''),
    ])
    lo_ = rn._loop_open('for (dup, canon) in it: rewrite.iter()')
    rn.body = rn.body[:lo_ + 1] + ' let ghost w_b = self_.witness@; let ghost k_ = it.index@ as int; ' + rn.body[lo_ + 1:]
    rn.before('let r = canon.resolve(&rewrite);', '''proof {
            assert(rewrite@.contains_key(*it.seq()[k_].0));
            assert(rw0.dom().contains(*dup));
            assert((root(rw0, rw0[*dup]).0 as int) < self.witness@.len());
        }''')
    rn.before('let mut witness_values', '''let ghost w_fin = self_.witness@;
        proof {
            assert forall|d: WitnessId| #![auto] rw0.dom().contains(d) && slot(w_fin, root(rw0, rw0[d])).is_some() implies slot(w_fin, d) == slot(w_fin, root(rw0, rw0[d])) by {
                if self.witness_rewrite.is_some() { }
            }
        }''')
    rn.loop('for i in 0..self_.witness.len()', invariants=[
        ('len', 'witness_values@.len() == i && self_.witness@.len() == self.witness@.len()'),
        ('vals', 'forall|k: int| 0 <= k < i ==> self_.witness@[k] == Some(#[trigger] witness_values@[k])'),
    ])

    u.text("verus! {\nimpl<'a, F: Field> CircuitRunner<'a, F> {")
    for f in (sw, wv, gw, sp, spr, pd, ea, ex, rn):
        u.emit(f)
    u.text('}\n}')
    return u
