verus! {
// ================================================================ rewrite maps
pub type RW = Map<WitnessId, WitnessId>;

/// n-fold application of the rewrite map, stopping at the first id outside its domain
pub open spec fn iter(rw: RW, x: WitnessId, n: nat) -> WitnessId
    decreases n
{
    if n == 0 || !rw.dom().contains(x) { x } else { iter(rw, rw[x], (n - 1) as nat) }
}

/// r is the root of x: reached by following rw, and not rewritten itself
pub open spec fn root_of(rw: RW, x: WitnessId, r: WitnessId) -> bool {
    !rw.dom().contains(r) && exists|n: nat| iter(rw, x, n) == r
}
pub open spec fn root(rw: RW, x: WitnessId) -> WitnessId { choose|r: WitnessId| root_of(rw, x, r) }

/// Acyclicity certificate: every key carries a stamp; following an edge to another key increases it.
pub open spec fn stamped(rw: RW, stamp: Map<WitnessId, nat>, bound: nat) -> bool {
    &&& forall|k: WitnessId| #[trigger] rw.dom().contains(k) ==> stamp.dom().contains(k) && stamp[k] < bound
    &&& forall|k: WitnessId| #[trigger] rw.dom().contains(k) && rw.dom().contains(rw[k]) ==> stamp[k] < stamp[rw[k]]
}
pub open spec fn acyclic(rw: RW) -> bool {
    exists|stamp: Map<WitnessId, nat>, bound: nat| stamped(rw, stamp, bound)
}

pub proof fn lemma_iter_fix(rw: RW, x: WitnessId, m: nat)
    requires !rw.dom().contains(x)
    ensures iter(rw, x, m) == x
{}

pub proof fn lemma_iter_stable(rw: RW, x: WitnessId, n: nat, m: nat)
    requires !rw.dom().contains(iter(rw, x, n))
    ensures m >= n ==> iter(rw, x, m) == iter(rw, x, n)
    decreases n
{
    if m >= n {
        if n == 0 || !rw.dom().contains(x) {
            lemma_iter_fix(rw, x, m);
        } else {
            lemma_iter_stable(rw, rw[x], (n - 1) as nat, (m - 1) as nat);
        }
    }
}

pub proof fn lemma_root_unique(rw: RW, x: WitnessId, r1: WitnessId, r2: WitnessId)
    requires root_of(rw, x, r1), root_of(rw, x, r2)
    ensures r1 == r2
{
    let n1 = choose|n: nat| iter(rw, x, n) == r1;
    let n2 = choose|n: nat| iter(rw, x, n) == r2;
    lemma_iter_stable(rw, x, n1, n2);
    lemma_iter_stable(rw, x, n2, n1);
}

pub proof fn lemma_root(rw: RW, x: WitnessId, r: WitnessId)
    requires root_of(rw, x, r)
    ensures root(rw, x) == r
{
    lemma_root_unique(rw, x, r, root(rw, x));
}

pub proof fn lemma_root_outside(rw: RW, x: WitnessId)
    requires !rw.dom().contains(x)
    ensures root(rw, x) == x, root_of(rw, x, x)
{
    assert(iter(rw, x, 0) == x);
    lemma_root(rw, x, x);
}

pub proof fn lemma_iter_step(rw: RW, x: WitnessId, n: nat)
    ensures iter(rw, x, n + 1) == (if rw.dom().contains(iter(rw, x, n)) { rw[iter(rw, x, n)] } else { iter(rw, x, n) })
    decreases n
{
    reveal_with_fuel(iter, 3);
    if n == 0 || !rw.dom().contains(x) {
        if !rw.dom().contains(x) { lemma_iter_fix(rw, x, n); lemma_iter_fix(rw, x, n + 1); }
    } else {
        lemma_iter_step(rw, rw[x], (n - 1) as nat);
    }
}

/// adding an edge d -> c between two non-keys keeps the map acyclic
pub proof fn lemma_acyclic_insert(rw: RW, d: WitnessId, c: WitnessId)
    requires acyclic(rw), !rw.dom().contains(d), !rw.dom().contains(c), d != c
    ensures acyclic(rw.insert(d, c))
{
    let (stamp, bound) = choose|stamp: Map<WitnessId, nat>, bound: nat| stamped(rw, stamp, bound);
    let stamp2 = stamp.insert(d, bound);
    let rw2 = rw.insert(d, c);
    assert forall|k: WitnessId| #[trigger] rw2.dom().contains(k) implies stamp2.dom().contains(k) && stamp2[k] < bound + 1 by {
        if k != d { assert(rw.dom().contains(k)); }
    }
    assert forall|k: WitnessId| #[trigger] rw2.dom().contains(k) && rw2.dom().contains(rw2[k]) implies stamp2[k] < stamp2[rw2[k]] by {
        if k != d {
            assert(rw.dom().contains(k));
            if rw[k] != d { assert(rw.dom().contains(rw[k])); }
        }
    }
    assert(stamped(rw2, stamp2, bound + 1));
}

pub proof fn lemma_acyclic_empty()
    ensures acyclic(Map::<WitnessId, WitnessId>::empty())
{
    assert(stamped(Map::<WitnessId, WitnessId>::empty(), Map::<WitnessId, nat>::empty(), 0));
}

/// effect of the new edge on iteration, for a path that has already reached its end in rw
pub proof fn lemma_iter_insert(rw: RW, d: WitnessId, c: WitnessId, x: WitnessId, n: nat)
    requires !rw.dom().contains(d), !rw.dom().contains(c), d != c, !rw.dom().contains(iter(rw, x, n))
    ensures iter(rw.insert(d, c), x, n + 1) == (if iter(rw, x, n) == d { c } else { iter(rw, x, n) })
    decreases n
{
    reveal_with_fuel(iter, 3);
    let rw2 = rw.insert(d, c);
    if !rw.dom().contains(x) {
        lemma_iter_fix(rw, x, n);
        if x == d {
            lemma_iter_fix(rw2, c, n);
        } else {
            lemma_iter_fix(rw2, x, n + 1);
        }
    } else {
        if n > 0 {
            lemma_iter_insert(rw, d, c, rw[x], (n - 1) as nat);
        }
    }
}

pub proof fn lemma_root_insert(rw: RW, d: WitnessId, c: WitnessId, x: WitnessId, r: WitnessId)
    requires !rw.dom().contains(d), !rw.dom().contains(c), d != c, root_of(rw, x, r)
    ensures root_of(rw.insert(d, c), x, if r == d { c } else { r }),
            root(rw.insert(d, c), x) == (if r == d { c } else { r })
{
    let n = choose|n: nat| iter(rw, x, n) == r;
    lemma_iter_insert(rw, d, c, x, n);
    let r2 = if r == d { c } else { r };
    assert(iter(rw.insert(d, c), x, n + 1) == r2);
    lemma_root(rw.insert(d, c), x, r2);
}


pub proof fn lemma_root_total_aux(rw: RW, stamp: Map<WitnessId, nat>, bound: nat, x: WitnessId)
    requires stamped(rw, stamp, bound)
    ensures exists|r: WitnessId| root_of(rw, x, r)
    decreases (if rw.dom().contains(x) { bound - stamp[x] } else { 0 })
{
    if !rw.dom().contains(x) {
        lemma_root_outside(rw, x);
    } else {
        let y = rw[x];
        if rw.dom().contains(y) { assert(stamp[x] < stamp[rw[x]]); }
        lemma_root_total_aux(rw, stamp, bound, y);
        let r = choose|r: WitnessId| root_of(rw, y, r);
        let n = choose|n: nat| iter(rw, y, n) == r;
        reveal_with_fuel(iter, 2);
        assert(iter(rw, x, n + 1) == r);
        assert(root_of(rw, x, r));
    }
}
/// in an acyclic map every id has a root, and `root` names it
pub proof fn lemma_root_total(rw: RW, x: WitnessId)
    requires acyclic(rw)
    ensures root_of(rw, x, root(rw, x)), !rw.dom().contains(root(rw, x))
{
    let (stamp, bound) = choose|stamp: Map<WitnessId, nat>, bound: nat| stamped(rw, stamp, bound);
    lemma_root_total_aux(rw, stamp, bound, x);
}


} // verus!
