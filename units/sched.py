"""Unit `sched` (C10): the Horner lane schedule of the ALU table places every operation exactly once, keeps every
Horner step in lane 0 of consecutive rows, separates chains by separator rows and only packs contiguous steps that
share `b`.  Real text: circuit-prover/src/air/alu_air.rs  AluAir::{compute_schedule (whole; its `fill_row` closure is
hoisted to a function), horner_ops_share_b_idx}; common.rs reduce_lanes_if_dummy."""
import os
import re

from vf.extract import extract_item, match_brace
from vf.unit import Unit

HERE = os.path.dirname(os.path.abspath(__file__))


def gen_views():
    C = 'circuit-prover/src/air/alu_columns.rs'
    item = extract_item(C, r'pub\(crate\) struct AluPrepLaneCols<T>')
    body = item[item.index('{') + 1:item.rindex('}')]
    prep = re.findall(r'pub\s+(\w+)\s*:', body)
    t = ['verus! {', f'pub spec const NPREP: int = {len(prep)};', f'pub const PREP_LANE_WIDTH: usize = {len(prep)};']
    for k, f in enumerate(prep):
        t.append(f'pub spec const P_{f.upper()}: int = {k};')
    t.append('pub struct AluPrepLaneCols { ' + ' '.join(f'pub {f}: Fe,' for f in prep) + ' }')
    t.append('#[verifier::external_body]\npub fn borrow_prep(s: &[Fe]) -> (r: AluPrepLaneCols)\n    requires s@.len() == NPREP\n    ensures ' +
             ', '.join(f'r.{f} == s@[{k}]' for k, f in enumerate(prep)) + '\n{ unimplemented!() }')
    t.append('}')
    return '\n'.join(t)


def unmap_collect(f):
    """R6: `(0..N).map(|i| { BODY }).collect()` -> explicit loop building the vector (BODY kept verbatim)"""
    m = re.search(r'\(0\.\.(\w+)\)\s*\.map\(\|(\w+)\|\s*\{', f.body)
    if not m:
        return f
    open_ = m.end() - 1
    close = match_brace(f.body, open_)
    body = f.body[open_ + 1:close]
    rest = f.body[close + 1:]
    m2 = re.match(r'\s*\)\s*\.collect\(\)', rest)
    if not m2:
        return f
    new = f'{{ let mut v_ = Vec::new(); for {m.group(2)} in 0..{m.group(1)} {{ let x_ = {{ {body} }}; v_.push(x_); }} v_ }}'
    f.body = f.body[:m.start()] + new + rest[m2.end():]
    f.rewrites.append(('R6', '`(0..N).map(|i| { BODY }).collect()` -> loop pushing BODY', ''))
    return f


def unfind_rev(f):
    """R5/R6: `let NAME = (LO..=HI).rev().find(|&K| BODY).unwrap_or(D);` -> descending while loop assigning NAME (BODY kept verbatim)"""
    m = re.search(r'let (\w+) = \((\w+)\.\.=(\w+)\)\s*\.rev\(\)\s*\.find\(\|&(\w+)\|\s*', f.body)
    if not m:
        return f
    j = m.end()
    if f.body[j] == '{':
        close = match_brace(f.body, j)
        pred = f.body[j:close + 1]
        rest = f.body[close + 1:]
    else:
        close = f.body.index(')', j)
        pred = '{ ' + f.body[j:close] + ' }'
        rest = f.body[close:]
    m2 = re.match(r'\s*\)\s*\.unwrap_or\((\w+)\);', rest)
    if not m2:
        return f
    name, lo, hi, kv, dflt = m.group(1), m.group(2), m.group(3), m.group(4), m2.group(1)
    new = f'let mut {name} = {dflt}usize; let mut {kv} = {hi}; while {kv} >= {lo} {{ let c_ = {pred}; if c_ {{ {name} = {kv}; break; }} {kv} = {kv} - 1; }}'
    f.body = f.body[:m.start()] + new + rest[m2.end():]
    f.rewrites.append(('R5', '`(LO..=HI).rev().find(|&k| BODY).unwrap_or(D)` -> descending while loop (BODY kept verbatim)', ''))
    return f


def hoist_closure(f, name):
    """R6: `let NAME = |params| { BODY };` removed from the function and returned as (params, BODY)"""
    m = re.search(r'let ' + name + r' = \|([^|]*)\|\s*\{', f.body)
    if not m:
        return None
    open_ = m.end() - 1
    close = match_brace(f.body, open_)
    params, body = m.group(1), f.body[open_:close + 1]
    end = close + 1
    while f.body[end] in ' \n\t':
        end += 1
    assert f.body[end] == ';'
    f.body = f.body[:m.start()] + f.body[end + 1:]
    f.rewrites.append(('R6', f'closure `{name}` hoisted to a function of the same body (captured variable passed as an extra parameter)', ''))
    return params, body


PRELUDE = r'''
#![allow(unused_imports, unused_variables, dead_code, unused_mut, unused_parens)]
use vstd::prelude::*;
verus! {
global size_of usize == 8;
/// an opaque field element with decidable equality
#[derive(Clone, Copy, PartialEq, Eq, Structural)]
pub struct Fe(pub u64);
impl Fe { pub fn one() -> (r: Fe) ensures r == Fe(1) { Fe(1) } }
#[derive(Debug, Clone, Copy)]
pub enum ScheduleEntry { Op(usize), PackedHorner(usize, usize), Separator }
} // verus!
'''

SPEC = r'''
verus! {
pub open spec fn n_ops(pre: Seq<Fe>) -> int { pre.len() as int / NPREP }
pub open spec fn is_h(pre: Seq<Fe>, i: int) -> bool { pre[i * NPREP + P_SEL_HORNER] == Fe(1) }
pub open spec fn b_of(pre: Seq<Fe>, i: int) -> Fe { pre[i * NPREP + P_B_IDX] }
/// ascending list of the Horner (resp. other) operations with index < n
pub open spec fn hs_upto(pre: Seq<Fe>, n: int) -> Seq<int> decreases n {
    if n <= 0 { Seq::empty() } else if is_h(pre, n - 1) { hs_upto(pre, n - 1).push(n - 1) } else { hs_upto(pre, n - 1) }
}
pub open spec fn os_upto(pre: Seq<Fe>, n: int) -> Seq<int> decreases n {
    if n <= 0 { Seq::empty() } else if !is_h(pre, n - 1) { os_upto(pre, n - 1).push(n - 1) } else { os_upto(pre, n - 1) }
}
pub open spec fn range(a: int, k: int) -> Seq<int> { Seq::new(k as nat, |j: int| a + j) }
/// operations a schedule entry places in lane 0 as Horner work / elsewhere as ordinary work
pub open spec fn e_chain(pre: Seq<Fe>, e: ScheduleEntry) -> Seq<int> {
    match e { ScheduleEntry::Op(i) => if is_h(pre, i as int) { seq![i as int] } else { Seq::empty() }, ScheduleEntry::PackedHorner(i, k) => range(i as int, k as int), ScheduleEntry::Separator => Seq::empty() }
}
pub open spec fn e_other(pre: Seq<Fe>, e: ScheduleEntry) -> Seq<int> {
    match e { ScheduleEntry::Op(i) => if !is_h(pre, i as int) { seq![i as int] } else { Seq::empty() }, _ => Seq::empty() }
}
pub open spec fn chain_ops(pre: Seq<Fe>, s: Seq<ScheduleEntry>) -> Seq<int> decreases s.len() {
    if s.len() == 0 { Seq::empty() } else { chain_ops(pre, s.drop_last()) + e_chain(pre, s.last()) }
}
pub open spec fn other_ops(pre: Seq<Fe>, s: Seq<ScheduleEntry>) -> Seq<int> decreases s.len() {
    if s.len() == 0 { Seq::empty() } else { other_ops(pre, s.drop_last()) + e_other(pre, s.last()) }
}
pub open spec fn is_chain_entry(pre: Seq<Fe>, e: ScheduleEntry) -> bool {
    match e { ScheduleEntry::Op(i) => is_h(pre, i as int), ScheduleEntry::PackedHorner(_, _) => true, ScheduleEntry::Separator => false }
}
/// every Horner step (single or packed) sits in lane 0
pub open spec fn lane0_discipline(pre: Seq<Fe>, s: Seq<ScheduleEntry>, lanes: int) -> bool {
    forall|p: int| 0 <= p < s.len() && is_chain_entry(pre, #[trigger] s[p]) ==> p % lanes == 0
}
/// a packed entry covers 2..=pack_k contiguous operations that share `b`
pub open spec fn packs_ok(pre: Seq<Fe>, s: Seq<ScheduleEntry>, pack_k: int) -> bool {
    forall|p: int| 0 <= p < s.len() ==> ((#[trigger] s[p]) matches ScheduleEntry::PackedHorner(i, k) ==>
        2 <= k <= pack_k && i + k <= n_ops(pre) && forall|j: int| 0 <= j < k ==> #[trigger] b_of(pre, i + j) == b_of(pre, i as int))
}
/// entry number q appended by fill_row: the next non-chain operation while there are some, a separator afterwards
pub open spec fn fill_entry(non_chain: Seq<usize>, n0: int, q: int) -> ScheduleEntry {
    if n0 + q < non_chain.len() { ScheduleEntry::Op(non_chain[n0 + q]) } else { ScheduleEntry::Separator }
}
/// fill_row completes the current row (nothing if it is complete) with fill entries
pub open spec fn filled(s0: Seq<ScheduleEntry>, s1: Seq<ScheduleEntry>, n0: int, n1: int, non_chain: Seq<usize>, lanes: int) -> bool {
    &&& s1.len() % (lanes as nat) == 0 && s0.len() <= s1.len() && s1.len() - s0.len() < lanes && (s0.len() % (lanes as nat) == 0 ==> s1.len() == s0.len())
    &&& s1.subrange(0, s0.len() as int) == s0
    &&& forall|p: int| s0.len() <= p < s1.len() ==> (#[trigger] s1[p]) == fill_entry(non_chain, n0, p - s0.len())
    &&& n1 == (if n0 + (s1.len() - s0.len()) <= non_chain.len() { n0 + (s1.len() - s0.len()) } else { non_chain.len() as int })
}
pub proof fn lemma_mod_step(l0: int, lz: int, a: int)
    requires lz >= 1, l0 >= 0, a >= 0, (l0 % lz) + a <= lz
    ensures (l0 + a) % lz == (if (l0 % lz) + a < lz { (l0 % lz) + a } else { 0 })
{
    vstd::arithmetic::div_mod::lemma_fundamental_div_mod(l0, lz);
    if (l0 % lz) + a < lz { vstd::arithmetic::div_mod::lemma_fundamental_div_mod_converse(l0 + a, lz, l0 / lz, (l0 % lz) + a); }
    else {
        let q = l0 / lz;
        assert(lz * (q + 1) == lz * q + lz) by (nonlinear_arith);
        vstd::arithmetic::div_mod::lemma_fundamental_div_mod_converse(l0 + a, lz, q + 1, 0);
    }
}
pub open spec fn first_op(e: ScheduleEntry) -> int { match e { ScheduleEntry::Op(i) => i as int, ScheduleEntry::PackedHorner(i, _) => i as int, ScheduleEntry::Separator => 0 } }
pub open spec fn last_op(e: ScheduleEntry) -> int { match e { ScheduleEntry::Op(i) => i as int, ScheduleEntry::PackedHorner(i, k) => i + k - 1, ScheduleEntry::Separator => 0 } }
/// Horner entries in lane 0 of consecutive rows continue the same run of operations; a run starts after a separator row (row 0 holds a separator)
pub open spec fn rows_chain_ok(pre: Seq<Fe>, s: Seq<ScheduleEntry>, lanes: int) -> bool {
    &&& (s.len() > 0 ==> s[0] is Separator)
    &&& forall|p: int| lanes <= p < s.len() && p % lanes == 0 && is_chain_entry(pre, #[trigger] s[p]) && is_chain_entry(pre, s[p - lanes]) ==> first_op(s[p]) == last_op(s[p - lanes]) + 1
}
} // verus!
'''


def build():
    u = Unit('sched', ['C10'])
    u.rlimit = 150
    u.assume('field elements are opaque values with decidable equality (Fe); the preprocessed lane view reads fields in declaration order (generated from the real struct)')
    u.assume('R6 helpers: iter().any(|&h| h) = any_true; usize::saturating_sub / min / is_multiple_of; core::mem::take(&mut v) = move out and leave an empty vector')
    u.assume('lanes >= 1, pack_k >= 1, preprocessed length < 2^32 (64-bit usize)')
    u.text(PRELUDE)
    u.text(gen_views())
    u.text(SPEC)
    u.text(open(os.path.join(HERE, 'sched_spec.rs')).read())
    A = 'circuit-prover/src/air/alu_air.rs'
    IMPL = r'impl<F: Field \+ PrimeCharacteristicRing \+ Copy, const D: usize> AluAir<F, D>'

    cs = u.extract(A, IMPL, 'compute_schedule', 'AluAir::compute_schedule')
    cs.set_sig('R11', 'fn compute_schedule(preprocessed: &[Fe], lanes: usize, pack_k: usize) -> Option<Vec<ScheduleEntry>>')
    cs.rewrite_re('R11', r'let (\w+): &AluPrepLaneCols<F> = (\w+)\[([^\]]+)\]\.borrow\(\);', r'let \1 = borrow_prep(&\2[\3]);', min_count=1)
    cs.rewrite_re('R11', r'\bF::ONE\b', 'Fe::one()', min_count=1)
    unmap_collect(cs)
    cs.rewrite_re('R6', r'!(\w+)\.iter\(\)\.any\(\|&h\| h\)', r'!any_true(&\1)')
    cs.rewrite_re('R5', r'for \((\w+), &(\w+)\) in (\w+)\.iter\(\)\.enumerate\(\) \{', r'for \1 in 0..\3.len() { let \2 = \3[\1];')
    cs.rewrite_re('R6', r'(\w+)\.push\(core::mem::take\(&mut (\w+)\)\);', r'\1.push(\2); \2 = Vec::new();')
    fr = hoist_closure(cs, 'fill_row')
    cs.rewrite_re('R6', r'fill_row\(&mut schedule, &mut nc, &non_chain\)', 'fill_row(&mut schedule, &mut nc, &non_chain, lanes)')
    cs.rewrite_re('R5', r'for \((\w+), (\w+)\) in (\w+)\.iter\(\)\.enumerate\(\) \{', r'for \1 in 0..\3.len() { let \2 = &\3[\1];')
    cs.rewrite_re('R9', r'debug_assert_eq!\(schedule\.len\(\) % lanes, 0, "chain op not at lane 0"\);', 'assert(schedule.len() % lanes == 0); // @@A:chain_op_at_lane_0')
    cs.rewrite_re('R6', r'(\w+)\.len\(\)\.saturating_sub\((\w+)\)\.min\((\w+)\)', r'min_(sat_sub(\1.len(), \2), \3)')
    # R5: `for k in (2..=hi).rev() { B }` with `break` -> descending while loop
    cs.rewrite_re('R5', r'for k in \(2\.\.=(\w+)\)\.rev\(\) \{', r'let mut k = \1; while k >= 2 {')
    cs.rewrite_re('R5', r'(best_k = k;\s*break;\s*\})\s*\}', r'\1 k = k - 1; }')
    cs.rewrite_re('R5', r'for j in 1\.\.k \{', 'let mut j = 1usize; while j < k {')
    cs.rewrite_re('R5', r'(contiguous = false;\s*break;\s*\})\s*\}', r'\1 j = j + 1; }')
    unfind_rev(cs)
    cs.rewrite_re('R11', r'(\b\w+(?:\.len\(\))?)\.is_power_of_two\(\)', r'usize_is_pow2_(\1)', min_count=0)
    cs.rewrite_re('R6', r'(\w+)\.splice\(0\.\.0, core::iter::repeat_n\(([^,()]+), (\w+)\)\);', r'vec_prepend_repeat_(&mut \1, \2, \3);', min_count=0)
    cs.rewrite_re('R11', r'Self::horner_ops_share_b_idx\(', 'horner_ops_share_b_idx(')
    cs.rewrite_re('R6', r'&chain\[i\.\.i \+ k\]', 'chain, i, k')
    cs.rewrite_re('R6', r'&chain\[(\w+)\.\.(\w+)\]', r'chain, \1, \2 - \1')
    return stage2(u, cs, fr, A, IMPL)


def stage2(u, cs, fr, A, IMPL):
    # ---------------------------------------------------------------- the hoisted closure as a function under contract
    from vf.extract import Extracted
    from vf.unit import Fn
    params, body = fr
    ex = Extracted()
    ex.file, ex.container, ex.name, ex.sig, ex.body = A, 'AluAir::compute_schedule', 'fill_row (closure)', 'fn fill_row(' + params + ')', body
    ex.sha256 = cs.ex.sha256
    fl = Fn(u, ex, 'AluAir::compute_schedule::fill_row')
    u.fns.append(fl)
    fl.set_sig('R6', 'fn fill_row(schedule: &mut Vec<ScheduleEntry>, nc: &mut usize, non_chain: &Vec<usize>, lanes: usize)', sliced=True)
    fl.rewrite_re('R6', r'!schedule\.len\(\)\.is_multiple_of\(lanes\)', 'schedule.len() % lanes != 0')
    fl.rewrite_re('R6', r'\*nc \+= 1;', '*nc = *nc + 1;')
    fl.requires('geometry', 'lanes >= 1 && *old(nc) <= non_chain@.len()')
    fl.ensures('completes_the_row_with_pending_ops_then_separators', 'filled(old(schedule)@, final(schedule)@, *old(nc) as int, *final(nc) as int, non_chain@, lanes as int)')
    fl.at_start('let ghost l0 = schedule@.len() as int; let ghost lz = lanes as int; let ghost r0 = l0 % lz; let ghost n0 = *nc as int; proof { lemma_mod_step(l0, lz, 0); }')
    fl.loop('while schedule.len() % lanes != 0', invariants=[
        ('ctx', 'lz == lanes && lz >= 1 && l0 == old(schedule)@.len() && r0 == l0 % lz && n0 == *old(nc) && n0 <= non_chain@.len()'),
        ('row', 'l0 <= schedule@.len() && r0 + (schedule@.len() - l0) <= lz && (schedule@.len() > l0 ==> r0 > 0)'),
        ('prefix', 'schedule@.subrange(0, l0) == old(schedule)@'),
        ('appended', 'forall|p: int| l0 <= p < schedule@.len() ==> (#[trigger] schedule@[p]) == fill_entry(non_chain@, n0, p - l0)'),
        ('cursor', '*nc == (if n0 + (schedule@.len() - l0) <= non_chain@.len() { n0 + (schedule@.len() - l0) } else { non_chain@.len() as int })'),
    ], decreases='lz - r0 - (schedule@.len() - l0)')
    fl.at_loop_end('while schedule.len() % lanes != 0', 'proof { lemma_mod_step(l0, lz, schedule@.len() - l0); assert(schedule@.subrange(0, l0) =~= sb_.subrange(0, l0)); }')
    # loop body start: ghost snapshot + the modular fact that lets the push stay inside the row
    i = fl.body.index('{', fl.body.index('decreases lz - r0'))
    fl.body = fl.body[:i + 1] + ' let ghost sb_ = schedule@; proof { lemma_mod_step(l0, lz, schedule@.len() - l0); } ' + fl.body[i + 1:]
    fl.at_end('proof { lemma_mod_step(l0, lz, schedule@.len() - l0); }')
    u.text("""verus! {
#[verifier::external_body]
pub fn any_true(v: &Vec<bool>) -> (r: bool) ensures r == exists|i: int| 0 <= i < v@.len() && v@[i] { unimplemented!() }
pub fn sat_sub(a: usize, b: usize) -> (r: usize) ensures r == (if a >= b { a - b } else { 0 }) { if a >= b { a - b } else { 0 } }
pub fn min_(a: usize, b: usize) -> (r: usize) ensures r == (if a <= b { a as int } else { b as int }) { if a <= b { a } else { b } }
/// usize::is_power_of_two (R11) and `v.splice(0..0, core::iter::repeat_n(x, n))` = n copies of x put in front (R6)
pub uninterp spec fn sp_is_pow2(n: usize) -> bool;
#[verifier::external_body] pub fn usize_is_pow2_(n: usize) -> (r: bool) ensures r == sp_is_pow2(n) { unimplemented!() }
#[verifier::external_body] pub fn vec_prepend_repeat_<T: Copy>(v: &mut Vec<T>, x: T, n: usize) ensures final(v)@ == Seq::new(n as nat, |i: int| x) + old(v)@ { unimplemented!() }
}""")
    u.fill_fn = fl
    return stage3(u, cs, A, IMPL)


def stage3(u, cs, A, IMPL):
    sb = u.extract(A, IMPL, 'horner_ops_share_b_idx', 'AluAir::horner_ops_share_b_idx')
    # the real function under contract (window passed as a slice); compute_schedule calls the stub below, whose contract is this one read on chain[i..i+k]
    from units.openin import unall
    sb.set_sig('R11', 'fn horner_ops_share_b_idx_real(preprocessed: &[Fe], plw: usize, op_indices: &[usize]) -> bool')
    sb.rewrite_re('R11', r'let (\w+): &AluPrepLaneCols<F> =\s*(\w+)\[(.+?)\]\.borrow\(\);', r'let \1 = borrow_prep(&\2[\3]);', min_count=0, flags_dotall=True)
    sb.rewrite_re('R6', r'op_indices\.is_empty\(\)', 'op_indices.len() == 0', min_count=0)
    unall(sb)
    from vf.unit import unfirst_last_let_else
    unfirst_last_let_else(sb)
    sb.rewrite_re('R11', r'let (\w+): &AluPrepLaneCols<F> = (\w+)\[(.+?)\]\.borrow\(\);', r'let \1 = borrow_prep(&\2[\3]);', min_count=0, flags_dotall=True)
    from vf.unit import unref_patterns_in_arms
    unref_patterns_in_arms(sb)
    sb.rewrite_re('R1', r'let &idx = &op_indices\[(\w+)\];', r'let idx = op_indices[\1];', min_count=0)
    sb.attr('#[verifier::loop_isolation(false)]')
    sb.requires('window_in_range', 'plw == NPREP && preprocessed@.len() < 0x1_0000_0000 && forall|p: int| 0 <= p < op_indices@.len() ==> (#[trigger] op_indices@[p] + 1) * NPREP <= preprocessed@.len()')
    # a packed group publishes only its LAST step's output: packing is sound only if nothing but the next step reads an intermediate output (finding C09-packed-group-drops-intermediate-creator)
    sb.ensures('H_a_packable_window_has_no_intermediate_output_that_another_op_reads', 'ret ==> window_intermediates_read_only_by_the_chain(preprocessed@, op_indices@)')
    sb.ensures('true_iff_every_op_of_the_window_reads_the_same_b', 'ret == forall|p: int| 0 <= p < op_indices@.len() ==> b_of(preprocessed@, (#[trigger] op_indices@[p]) as int) == b_of(preprocessed@, op_indices@[0] as int)')
    for hd in [h for h in ('for q0_ in 0..op_indices.len()',) if h in sb.body]:
        lo = sb._loop_open(hd)
        sb.body = sb.body[:lo + 1] + ''' proof { assert((op_indices@[q0_ as int] + 1) * NPREP <= preprocessed@.len()); assert((op_indices@[q0_ as int] + 1) * NPREP == op_indices@[q0_ as int] * NPREP + NPREP) by (nonlinear_arith); assert(0 <= op_indices@[q0_ as int] * NPREP) by (nonlinear_arith); } ''' + sb.body[lo + 1:]
        sb.loop(hd, invariants=[('all_so_far', 'all0_ == forall|p: int| 0 <= p < q0_ ==> b_of(preprocessed@, (#[trigger] op_indices@[p]) as int) == b0')])
    if 'let b0 = prep0.b_idx;' in sb.body:
        sb.before('let prep0 = borrow_prep(', 'proof { assert((op_indices@[0] + 1) * NPREP <= preprocessed@.len()); assert((op_indices@[0] + 1) * NPREP == op_indices@[0] * NPREP + NPREP) by (nonlinear_arith); assert(0 <= op_indices@[0] * NPREP) by (nonlinear_arith); }')
        sb.after('let b0 = prep0.b_idx;', 'proof { assert(b0 == b_of(preprocessed@, op_indices@[0] as int)); }')
    u.text('verus! {')
    u.emit(sb)
    u.text('}')
    u.text("""verus! {
/// the contract above, read on the window chain[i..i+k] (how compute_schedule passes it)
/// the outputs of all but the last op of the window are read by no op outside the window (what a packed Horner row needs: it creates only the last output); nothing in the packing predicate establishes it
pub uninterp spec fn window_intermediates_read_only_by_the_chain(pre: Seq<Fe>, idx: Seq<usize>) -> bool;
/// every HornerAcc op that directly follows another HornerAcc op in op order takes that op's output as its accumulator (the accumulator slot is not part of the preprocessed lane columns)
pub uninterp spec fn adjacent_horner_ops_chain_through_the_accumulator(pre: Seq<Fe>) -> bool;
#[verifier::external_body]
pub fn horner_ops_share_b_idx(preprocessed: &[Fe], plw: usize, chain: &Vec<usize>, i: usize, k: usize) -> (r: bool)
    requires i + k <= chain@.len()
    ensures r == forall|p: int| i <= p < i + k ==> b_of(preprocessed@, (#[trigger] chain@[p]) as int) == b_of(preprocessed@, chain@[i as int] as int)
{ unimplemented!() }
}""")
    PRE = 'preprocessed@'
    cs.requires('geometry', 'lanes >= 1 && pack_k >= 1 && preprocessed@.len() < 0x1_0000_0000')
    cs.ensures('none_iff_no_horner_op', f'ret is None <==> forall|i: int| 0 <= i < n_ops({PRE}) ==> !is_h({PRE}, i)')
    cs.ensures('every_op_placed_exactly_once_in_order', f'ret matches Some(s) ==> chain_ops({PRE}, s@) == hs_upto({PRE}, n_ops({PRE})) && other_ops({PRE}, s@) == os_upto({PRE}, n_ops({PRE}))')
    cs.ensures('full_rows', 'ret matches Some(s) ==> s@.len() % (lanes as nat) == 0')
    cs.ensures('horner_steps_in_lane_0', f'ret matches Some(s) ==> lane0_discipline({PRE}, s@, lanes as int)')
    cs.ensures('packed_entries_contiguous_same_b_at_most_pack_k', f'ret matches Some(s) ==> packs_ok({PRE}, s@, pack_k as int)')
    # the schedule treats a maximal run of HornerAcc ops as ONE chain; whether an op continues the chain (its accumulator is the previous op's output) is not in the preprocessed data it reads
    cs.ensures('H_every_horner_op_after_another_continues_its_chain', f'ret is Some ==> adjacent_horner_ops_chain_through_the_accumulator({PRE})')
    cs.ensures('consecutive_lane0_horner_rows_continue_one_chain_and_row0_is_a_separator', f'ret matches Some(s) ==> rows_chain_ok({PRE}, s@, lanes as int)')

    cs.at_start('let ghost pre = preprocessed@; let ghost nn = n_ops(pre); let ghost lz = lanes as int; let ghost pk = pack_k as int;')
    # L1: the Horner flag of every operation
    cs.loop('for i in 0..num_ops', invariants=[
        ('flags', 'preprocessed@.len() < 0x1_0000_0000 && pre == preprocessed@ && plw == NPREP && num_ops == nn && nn == n_ops(pre) && num_ops * NPREP <= preprocessed@.len() && v_@.len() == i && forall|q: int| 0 <= q < i ==> #[trigger] v_@[q] == is_h(pre, q)')])
    cs.before('let prep = borrow_prep(', """proof {
                    assert((i + 1) * NPREP <= num_ops * NPREP) by (nonlinear_arith) requires i < num_ops;
                    assert((i + 1) * NPREP == i * NPREP + NPREP) by (nonlinear_arith);
                    assert(0 <= i * NPREP) by (nonlinear_arith) requires i >= 0;
                }""")
    cs.before('let is_horner: Vec<bool>', """proof {
            vstd::arithmetic::div_mod::lemma_fundamental_div_mod(preprocessed@.len() as int, NPREP);
            assert(num_ops * NPREP <= preprocessed@.len());
        }""")
    return stage4(u, cs)



def stage4(u, cs):
    CTX = 'pre == preprocessed@ && nn == n_ops(pre) && plw == NPREP && lz == lanes && lz >= 1 && pk == pack_k && pk >= 1 && nn < 0x1_0000_0000 && is_horner@.len() == nn && (forall|q: int| 0 <= q < nn ==> #[trigger] is_horner@[q] == is_h(pre, q))'
    cs.before('return None;', 'proof { assert forall|i: int| 0 <= i < n_ops(pre) implies !is_h(pre, i) by { assert(is_horner@[i] == is_h(pre, i)); assert(!is_horner@[i]); } }', nth=1)
    cs.after('return None; }', """let ghost w_ = choose|i: int| 0 <= i < is_horner@.len() && is_horner@[i];
        proof {
            vstd::arithmetic::div_mod::lemma_fundamental_div_mod(preprocessed@.len() as int, NPREP);
            assert(nn < 0x1_0000_0000);
            assert(is_horner@.len() == nn);
            assert(is_h(pre, w_) && 0 <= w_ < nn);
        }""", nth=1)
    # L2: split into chains (maximal runs) and the other operations
    cs.loop('for i in 0..is_horner.len()', invariants=[
        ('ctx', CTX),
        ('horner_ops_so_far', 'flat(chains@) + ints(current_chain@) == hs_upto(pre, i as int)'),
        ('other_ops_so_far', 'ints(non_chain@) == os_upto(pre, i as int)'),
        ('chains_are_runs', 'forall|c: int| 0 <= c < chains@.len() ==> run_ok(pre, (#[trigger] chains@[c])@)'),
        ('open_run', 'current_chain@.len() > 0 ==> (current_chain@[current_chain@.len() - 1] == i - 1 && forall|j: int| 0 <= j < current_chain@.len() ==> (#[trigger] current_chain@[j]) == current_chain@[0] + j && is_h(pre, current_chain@[j] as int) && current_chain@[j] < nn)'),
    ])
    cs.before('if h { current_chain.push(i);', 'let ghost ch0 = chains@; let ghost cc0 = current_chain@; let ghost nc0 = non_chain@;')
    cs.at_loop_end('for i in 0..is_horner.len()', """proof {
                if h {
                    assert(ints(current_chain@) =~= ints(cc0).push(i as int));
                    assert(flat(chains@) + ints(current_chain@) =~= (flat(ch0) + ints(cc0)).push(i as int));
                    assert(ints(non_chain@) =~= ints(nc0));
                } else {
                    assert(ints(non_chain@) =~= ints(nc0).push(i as int));
                    if cc0.len() > 0 {
                        assert(chains@ =~= ch0.push(chains@[chains@.len() - 1]));
                        lemma_flat_push(ch0, chains@[chains@.len() - 1]);
                        assert(chains@[chains@.len() - 1]@ == cc0);
                        assert(flat(chains@) + ints(current_chain@) =~= flat(ch0) + ints(cc0));
                        assert forall|c: int| 0 <= c < chains@.len() implies run_ok(pre, (#[trigger] chains@[c])@) by { if c < ch0.len() { assert(chains@[c] == ch0[c]); } }
                    } else {
                        assert(flat(chains@) + ints(current_chain@) =~= flat(ch0) + ints(cc0));
                    }
                }
            }""")
    cs.before('let mut schedule: Vec<ScheduleEntry> = Vec::new();', """proof {
            // after the last run is closed: the chains hold exactly the Horner operations, non_chain exactly the others
            lemma_hs_props(pre, nn);
            assert(forall|q: int| 0 <= q < non_chain@.len() ==> ints(non_chain@)[q] == non_chain@[q]);
            assert(all_other(pre, non_chain@)) by {
                assert forall|q: int| 0 <= q < non_chain@.len() implies !is_h(pre, (#[trigger] non_chain@[q]) as int) && non_chain@[q] < n_ops(pre) by { assert(ints(non_chain@)[q] == os_upto(pre, nn)[q]); }
            }
        }""")
    cs.before('if !current_chain.is_empty() { chains.push(current_chain); }', 'let ghost ch1 = chains@; let ghost cc1 = current_chain@;')
    cs.after('if !current_chain.is_empty() { chains.push(current_chain); }', """proof {
            if cc1.len() > 0 {
                assert(chains@ =~= ch1.push(chains@[chains@.len() - 1]));
                lemma_flat_push(ch1, chains@[chains@.len() - 1]);
                assert forall|c: int| 0 <= c < chains@.len() implies run_ok(pre, (#[trigger] chains@[c])@) by { if c < ch1.len() { assert(chains@[c] == ch1[c]); } }
            } else {
                assert(flat(ch1) + ints(cc1) =~= flat(ch1));
            }
            assert(flat(chains@) == hs_upto(pre, nn));
        }""")
    return stage5(u, cs, CTX)


def stage5(u, cs, CTX):
    SCTX = (CTX + ' && all_other(pre, non_chain@) && ints(non_chain@) == os_upto(pre, nn) && flat(chains@) == hs_upto(pre, nn) && (forall|c: int| 0 <= c < chains@.len() ==> run_ok(pre, (#[trigger] chains@[c])@))'
            ' && nc <= non_chain@.len() && non_chain@.len() <= nn')
    BOOK = ('other_ops(pre, schedule@) == ints(non_chain@).take(nc as int)'
            ' && lane0_discipline(pre, schedule@, lz) && packs_ok(pre, schedule@, pk) && rows_chain_ok(pre, schedule@, lz) && schedule@.len() > 0')
    ROW = 'schedule@.len() % (lanes as nat) == 0 && schedule@.len() >= lz'
    FILL = """let ghost s_f0 = schedule@; let ghost n_f0 = nc as int;"""
    def after_fill(extra=''):
        return """proof {
                lemma_fill(pre, s_f0, schedule@, n_f0, nc as int, non_chain@, lz, pk);
                assert(ints(non_chain@).take(n_f0) + ints(non_chain@).subrange(n_f0, nc as int) =~= ints(non_chain@).take(nc as int));
                """ + extra + """
            }"""
    # ---- prologue: separator row
    cs.after('let mut nc = 0;', """proof {
            lemma_hs_props(pre, nn);
            assert(non_chain@.len() <= nn) by { lemma_os_len(pre, nn); }
            assert(ints(non_chain@).take(0) =~= Seq::<int>::empty());
            assert(Seq::<int>::empty() + Seq::<int>::empty() =~= Seq::<int>::empty());
        }""")
    # every fill_row call (however many there are) gets a ghost snapshot before and the bookkeeping lemma after;
    # the call inside the per-chain `while i` loop additionally closes the proof step of the Horner entry pushed just before it
    calls = [m.start() for m in re.finditer(r'fill_row\(&mut schedule, &mut nc, &non_chain, lanes\);', cs.body)]
    wi = cs._loop_open('while i')
    wi_end = match_brace(cs.body, wi)
    GEN = 'if s_f0.len() >= 1 && (s_f0.len() - 1) % lz == 0 { assert(last_lane0(schedule@, lz) == s_f0[s_f0.len() - 1]); }'
    for st in reversed(calls):
        en = st + len('fill_row(&mut schedule, &mut nc, &non_chain, lanes);')
        pre_ = 'proof {\n assert(schedule@ =~= s_p.push(e_new)); // @@A:one_horner_entry_pushed_for_the_ops_consumed\n assert(last_op(e_new) == chain@[i - 1]); // @@A:cursor_advances_past_the_entry\n } ' if wi < st < wi_end else ''
        cs.body = cs.body[:st] + pre_ + FILL + ' ' + cs.body[st:en] + ' ' + after_fill(GEN) + cs.body[en:]
        cs.spec_inserts += 1
    # every separator push: a separator is no Horner entry
    seps = [m.start() for m in re.finditer(r'schedule\.push\(ScheduleEntry::Separator\);', cs.body)]
    for st in reversed(seps):
        cs.body = (cs.body[:st] + 'proof { lemma_push_plain(pre, schedule@, ScheduleEntry::Separator, lz, pk); assert(e_other(pre, ScheduleEntry::Separator) =~= Seq::<int>::empty()); '
                   'assert(other_ops(pre, schedule@) + Seq::<int>::empty() =~= other_ops(pre, schedule@)); } ' + cs.body[st:])
        cs.spec_inserts += 1
    # ---- L3 over the chains
    cs.loop('for chain_idx in 0..chains.len()', invariants=[
        ('ctx', SCTX), ('book', BOOK), ('row', ROW),
        ('horner_ops_so_far', 'chain_ops(pre, schedule@) == flat(chains@.take(chain_idx as int))'),
        ('first_chain_follows_separator_row', 'chain_idx == 0 ==> last_lane0(schedule@, lz) is Separator'),
    ])
    cs.before('for chain_idx in 0..chains.len()', 'proof { assert(chains@.take(0) =~= Seq::<Vec<usize>>::empty()); }')
    # ---- L4 inside one chain
    cs.loop('while i', invariants=[
        ('ctx', SCTX), ('book', BOOK), ('row', ROW),
        ('chain', 'chain_idx < chains@.len() && chain@ == chains@[chain_idx as int]@ && i <= chain@.len() && run_ok(pre, chain@)'),
        ('horner_ops_so_far', 'chain_ops(pre, schedule@) == flat(chains@.take(chain_idx as int)) + ints(chain@).take(i as int)'),
        ('previous_row', '(i == 0 ==> last_lane0(schedule@, lz) is Separator) && (i > 0 ==> is_chain_entry(pre, last_lane0(schedule@, lz)) && last_op(last_lane0(schedule@, lz)) == chain@[i - 1])'),
    ], decreases='chain@.len() - i')
    cs.before('let mut i = 0; while i', 'proof { assert(ints(chain@).take(0) =~= Seq::<int>::empty()); assert(flat(chains@.take(chain_idx as int)) + Seq::<int>::empty() =~= flat(chains@.take(chain_idx as int))); }')
    # ---- L5 / L6: the packing search
    cs.before('let mut k = k_try; while k >= 2', 'proof { assert(chain@.len() <= nn) by { assert(chain@[chain@.len() - 1] == chain@[0] + (chain@.len() - 1)); } }')
    cs.loop('while k >= 2', invariants=[
        ('ctx', 'chain@.len() <= nn && nn < 0x1_0000_0000 && pre == preprocessed@ && plw == NPREP && i < chain@.len() && k <= k_try && k_try <= chain@.len() - i && k_try <= pack_k && run_ok(pre, chain@) && nn == n_ops(pre)'),
    ], invariant_except_break=[('none_yet', 'best_k == 1')],
       ensures=[('found_window_shares_b', 'best_k == 1 || (2 <= best_k <= k_try '
                          '&& (forall|p: int| i <= p < i + best_k ==> b_of(pre, (#[trigger] chain@[p]) as int) == b_of(pre, chain@[i as int] as int)))')],
       decreases='k')
    if 'while j < k' in cs.body:
        cs.loop('while j < k', invariants=[
            ('ctx', 'chain@.len() <= nn && 1 <= j <= k && k <= chain@.len() - i && i < chain@.len() && run_ok(pre, chain@) && nn == n_ops(pre) && nn < 0x1_0000_0000'),
        ], ensures=[('none', 'true')], decreases='k - j')
    # ---- the push of one Horner entry
    cs.before('if best_k >= 2 { schedule.push(ScheduleEntry::PackedHorner(chain[i], best_k));', """let ghost s_p = schedule@; let ghost i0 = i as int;
                let ghost e_new = if best_k >= 2 { ScheduleEntry::PackedHorner(chain@[i0], best_k) } else { ScheduleEntry::Op(chain@[i0]) };
                proof {
                    assert(is_h(pre, chain@[i0] as int));
                    let adv: int = if best_k >= 2 { best_k as int } else { 1 };
                    assert forall|p: int| i0 <= p < i0 + adv implies (#[trigger] chain@[p]) == chain@[i0] + (p - i0) by { assert(chain@[p] == chain@[0] + p); assert(chain@[i0] == chain@[0] + i0); }
                    assert(e_chain(pre, e_new) =~= ints(chain@).subrange(i0, i0 + adv));
                    assert(ints(chain@).take(i0) + ints(chain@).subrange(i0, i0 + adv) =~= ints(chain@).take(i0 + adv));
                    assert(e_other(pre, e_new) =~= Seq::<int>::empty());
                    if best_k >= 2 {
                        assert(chain@[i0] + best_k <= n_ops(pre)) by { assert(chain@[i0 + best_k - 1] < n_ops(pre)); }
                        assert forall|jj: int| 0 <= jj < best_k implies #[trigger] b_of(pre, chain@[i0] + jj) == b_of(pre, chain@[i0] as int) by { let p = i0 + jj; assert(chain@[p] == chain@[i0] + (p - i0)); assert(b_of(pre, chain@[p] as int) == b_of(pre, chain@[i0] as int)); }
                    }
                    if i0 > 0 { assert(chain@[i0] == chain@[i0 - 1] + 1) by { assert(chain@[i0] == chain@[0] + i0); assert(chain@[i0 - 1] == chain@[0] + (i0 - 1)); } }
                    lemma_push_chain_entry(pre, s_p, e_new, lz, pk);
                    lemma_push_ops(pre, s_p, e_new);
                    assert(other_ops(pre, s_p) + Seq::<int>::empty() =~= other_ops(pre, s_p));
                    assert((flat(chains@.take(chain_idx as int)) + ints(chain@).take(i0)) + ints(chain@).subrange(i0, i0 + adv) =~= flat(chains@.take(chain_idx as int)) + ints(chain@).take(i0 + adv));
                }""")
    # ---- end of one chain
    cs.at_loop_end('for chain_idx in 0..chains.len()', """proof {
                lemma_flat_take(chains@, chain_idx as int);
                assert(ints(chain@).take(chain@.len() as int) =~= ints(chain@));
            }""")
    # ---- L7: the remaining ordinary operations
    i7 = cs._loop_open('while nc')
    cs.body = cs.body[:i7 + 1] + ' let ghost s_l7 = schedule@; let ghost n_l7 = nc; ' + cs.body[i7 + 1:]
    cs.at_loop_end('while nc', """proof {
                let x = non_chain@[n_l7 as int];
                lemma_push_plain(pre, s_l7, ScheduleEntry::Op(x), lz, pk);
                assert(e_other(pre, ScheduleEntry::Op(x)) =~= seq![x as int]);
                assert(ints(non_chain@).take(n_l7 as int) + seq![x as int] =~= ints(non_chain@).take(n_l7 as int + 1));
                assert(schedule@ =~= s_l7.push(ScheduleEntry::Op(x))); // @@A:remaining_ops_appended_one_by_one
            }""")
    cs.loop('while nc', invariants=[
        ('ctx', SCTX), ('book', BOOK),
        ('all_horner_ops_placed', 'chain_ops(pre, schedule@) == hs_upto(pre, nn)'),
    ], decreases='non_chain@.len() - nc')
    cs.before('while nc', 'proof { assert(chains@.take(chains@.len() as int) =~= chains@); }')
    cs.bind_tail('r_', 'proof { assert(ints(non_chain@).take(non_chain@.len() as int) =~= ints(non_chain@)); assert(is_h(pre, w_) && 0 <= w_ < n_ops(pre)); }')
    return u_done(u, cs, SCTX, BOOK)


def u_done(u, cs, SCTX, BOOK):
    rl = u.extract('circuit-prover/src/common.rs', '', 'reduce_lanes_if_dummy', 'reduce_lanes_if_dummy')
    rl.sig_rewrite('R11', 'table: &str,', 'table: &TableName,')
    rl.erase_macro('tracing::warn!')
    rl.ensures('one_lane_for_dummy_tables_otherwise_unchanged', 'ret == (if only_dummy && configured_lanes > 1 { 1 } else { configured_lanes as int })')
    u.text('verus! {\npub struct TableName { pub _p: () }')
    u.emit(rl)
    u.emit(u.fill_fn)
    u.emit(cs)
    u.text('}')
    return u
