"""Unit `sched` (C10): the Horner lane schedule of the ALU table places every operation exactly once, keeps every
Horner step in lane 0 of consecutive rows, separates chains by separator rows and only packs contiguous steps that
share `b`.  Real text: circuit-prover/src/air/alu_air.rs  AluAir::{compute_schedule (whole; its `fill_row` closure is
hoisted to a function), horner_ops_share_b_idx}; common.rs reduce_lanes_if_dummy."""
import os
import re

from vf.extract import extract_item, match_brace
from vf.unit import Unit

HERE = os.path.dirname(os.path.abspath(__file__))


def gen_views():
    C = 'circuit-prover/src/air/alu_columns.rs'
    item = extract_item(C, r'pub\(crate\) struct AluPrepLaneCols<T>')
    body = item[item.index('{') + 1:item.rindex('}')]
    prep = re.findall(r'pub\s+(\w+)\s*:', body)
    t = ['verus! {', f'pub spec const NPREP: int = {len(prep)};', f'pub const PREP_LANE_WIDTH: usize = {len(prep)};']
    for k, f in enumerate(prep):
        t.append(f'pub spec const P_{f.upper()}: int = {k};')
    t.append('pub struct AluPrepLaneCols { ' + ' '.join(f'pub {f}: Fe,' for f in prep) + ' }')
    t.append('#[verifier::external_body]\npub fn borrow_prep(s: &[Fe]) -> (r: AluPrepLaneCols)\n    requires s@.len() == NPREP\n    ensures ' +
             ', '.join(f'r.{f} == s@[{k}]' for k, f in enumerate(prep)) + '\n{ unimplemented!() }')
    t.append('}')
    return '\n'.join(t)


def unmap_collect(f):
    """R6: `(0..N).map(|i| { BODY }).collect()` -> explicit loop building the vector (BODY kept verbatim)"""
    m = re.search(r'\(0\.\.(\w+)\)\s*\.map\(\|(\w+)\|\s*\{', f.body)
    if not m:
        return f
    open_ = m.end() - 1
    close = match_brace(f.body, open_)
    body = f.body[open_ + 1:close]
    rest = f.body[close + 1:]
    m2 = re.match(r'\s*\)\s*\.collect\(\)', rest)
    if not m2:
        return f
    new = f'{{ let mut v_ = Vec::new(); for {m.group(2)} in 0..{m.group(1)} {{ let x_ = {{ {body} }}; v_.push(x_); }} v_ }}'
    f.body = f.body[:m.start()] + new + rest[m2.end():]
    f.rewrites.append(('R6', '`(0..N).map(|i| { BODY }).collect()` -> loop pushing BODY', ''))
    return f


def hoist_closure(f, name):
    """R6: `let NAME = |params| { BODY };` removed from the function and returned as (params, BODY)"""
    m = re.search(r'let ' + name + r' = \|([^|]*)\|\s*\{', f.body)
    if not m:
        return None
    open_ = m.end() - 1
    close = match_brace(f.body, open_)
    params, body = m.group(1), f.body[open_:close + 1]
    end = close + 1
    while f.body[end] in ' \n\t':
        end += 1
    assert f.body[end] == ';'
    f.body = f.body[:m.start()] + f.body[end + 1:]
    f.rewrites.append(('R6', f'closure `{name}` hoisted to a function of the same body (captured variable passed as an extra parameter)', ''))
    return params, body


PRELUDE = r'''
#![allow(unused_imports, unused_variables, dead_code, unused_mut, unused_parens)]
use vstd::prelude::*;
verus! {
global size_of usize == 8;
/// an opaque field element with decidable equality
#[derive(Clone, Copy, PartialEq, Eq, Structural)]
pub struct Fe(pub u64);
impl Fe { pub fn one() -> (r: Fe) ensures r == Fe(1) { Fe(1) } }
#[derive(Debug, Clone, Copy)]
pub enum ScheduleEntry { Op(usize), PackedHorner(usize, usize), Separator }
} // verus!
'''

SPEC = r'''
verus! {
pub open spec fn n_ops(pre: Seq<Fe>) -> int { pre.len() as int / NPREP }
pub open spec fn is_h(pre: Seq<Fe>, i: int) -> bool { pre[i * NPREP + P_SEL_HORNER] == Fe(1) }
pub open spec fn b_of(pre: Seq<Fe>, i: int) -> Fe { pre[i * NPREP + P_B_IDX] }
/// ascending list of the Horner (resp. other) operations with index < n
pub open spec fn hs_upto(pre: Seq<Fe>, n: int) -> Seq<int> decreases n {
    if n <= 0 { Seq::empty() } else if is_h(pre, n - 1) { hs_upto(pre, n - 1).push(n - 1) } else { hs_upto(pre, n - 1) }
}
pub open spec fn os_upto(pre: Seq<Fe>, n: int) -> Seq<int> decreases n {
    if n <= 0 { Seq::empty() } else if !is_h(pre, n - 1) { os_upto(pre, n - 1).push(n - 1) } else { os_upto(pre, n - 1) }
}
pub open spec fn range(a: int, k: int) -> Seq<int> { Seq::new(k as nat, |j: int| a + j) }
/// operations a schedule entry places in lane 0 as Horner work / elsewhere as ordinary work
pub open spec fn e_chain(pre: Seq<Fe>, e: ScheduleEntry) -> Seq<int> {
    match e { ScheduleEntry::Op(i) => if is_h(pre, i as int) { seq![i as int] } else { Seq::empty() }, ScheduleEntry::PackedHorner(i, k) => range(i as int, k as int), ScheduleEntry::Separator => Seq::empty() }
}
pub open spec fn e_other(pre: Seq<Fe>, e: ScheduleEntry) -> Seq<int> {
    match e { ScheduleEntry::Op(i) => if !is_h(pre, i as int) { seq![i as int] } else { Seq::empty() }, _ => Seq::empty() }
}
pub open spec fn chain_ops(pre: Seq<Fe>, s: Seq<ScheduleEntry>) -> Seq<int> decreases s.len() {
    if s.len() == 0 { Seq::empty() } else { chain_ops(pre, s.drop_last()) + e_chain(pre, s.last()) }
}
pub open spec fn other_ops(pre: Seq<Fe>, s: Seq<ScheduleEntry>) -> Seq<int> decreases s.len() {
    if s.len() == 0 { Seq::empty() } else { other_ops(pre, s.drop_last()) + e_other(pre, s.last()) }
}
pub open spec fn is_chain_entry(pre: Seq<Fe>, e: ScheduleEntry) -> bool {
    match e { ScheduleEntry::Op(i) => is_h(pre, i as int), ScheduleEntry::PackedHorner(_, _) => true, ScheduleEntry::Separator => false }
}
/// every Horner step (single or packed) sits in lane 0
pub open spec fn lane0_discipline(pre: Seq<Fe>, s: Seq<ScheduleEntry>, lanes: int) -> bool {
    forall|p: int| 0 <= p < s.len() && is_chain_entry(pre, #[trigger] s[p]) ==> p % lanes == 0
}
/// a packed entry covers 2..=pack_k contiguous operations that share `b`
pub open spec fn packs_ok(pre: Seq<Fe>, s: Seq<ScheduleEntry>, pack_k: int) -> bool {
    forall|p: int| 0 <= p < s.len() ==> ((#[trigger] s[p]) matches ScheduleEntry::PackedHorner(i, k) ==>
        2 <= k <= pack_k && i + k <= n_ops(pre) && forall|j: int| 0 <= j < k ==> #[trigger] b_of(pre, i + j) == b_of(pre, i as int))
}
/// entry number q appended by fill_row: the next non-chain operation while there are some, a separator afterwards
pub open spec fn fill_entry(non_chain: Seq<usize>, n0: int, q: int) -> ScheduleEntry {
    if n0 + q < non_chain.len() { ScheduleEntry::Op(non_chain[n0 + q]) } else { ScheduleEntry::Separator }
}
/// fill_row completes the current row (nothing if it is complete) with fill entries
pub open spec fn filled(s0: Seq<ScheduleEntry>, s1: Seq<ScheduleEntry>, n0: int, n1: int, non_chain: Seq<usize>, lanes: int) -> bool {
    &&& s1.len() % (lanes as nat) == 0 && s0.len() <= s1.len() && s1.len() - s0.len() < lanes && (s0.len() % (lanes as nat) == 0 ==> s1.len() == s0.len())
    &&& s1.subrange(0, s0.len() as int) == s0
    &&& forall|p: int| s0.len() <= p < s1.len() ==> (#[trigger] s1[p]) == fill_entry(non_chain, n0, p - s0.len())
    &&& n1 == (if n0 + (s1.len() - s0.len()) <= non_chain.len() { n0 + (s1.len() - s0.len()) } else { non_chain.len() as int })
}
pub proof fn lemma_mod_step(l0: int, lz: int, a: int)
    requires lz >= 1, l0 >= 0, a >= 0, (l0 % lz) + a <= lz
    ensures (l0 + a) % lz == (if (l0 % lz) + a < lz { (l0 % lz) + a } else { 0 })
{
    vstd::arithmetic::div_mod::lemma_fundamental_div_mod(l0, lz);
    if (l0 % lz) + a < lz { vstd::arithmetic::div_mod::lemma_fundamental_div_mod_converse(l0 + a, lz, l0 / lz, (l0 % lz) + a); }
    else { vstd::arithmetic::div_mod::lemma_fundamental_div_mod_converse(l0 + a, lz, l0 / lz + 1, 0); }
}
pub open spec fn first_op(e: ScheduleEntry) -> int { match e { ScheduleEntry::Op(i) => i as int, ScheduleEntry::PackedHorner(i, _) => i as int, ScheduleEntry::Separator => 0 } }
pub open spec fn last_op(e: ScheduleEntry) -> int { match e { ScheduleEntry::Op(i) => i as int, ScheduleEntry::PackedHorner(i, k) => i + k - 1, ScheduleEntry::Separator => 0 } }
/// Horner entries in lane 0 of consecutive rows continue the same run of operations; a run starts after a separator row (row 0 holds a separator)
pub open spec fn rows_chain_ok(pre: Seq<Fe>, s: Seq<ScheduleEntry>, lanes: int) -> bool {
    &&& (s.len() > 0 ==> s[0] is Separator)
    &&& forall|p: int| lanes <= p < s.len() && p % lanes == 0 && is_chain_entry(pre, #[trigger] s[p]) && is_chain_entry(pre, s[p - lanes]) ==> first_op(s[p]) == last_op(s[p - lanes]) + 1
}
} // verus!
'''


def build():
    u = Unit('sched', ['C10'])
    u.rlimit = 150
    u.assume('field elements are opaque values with decidable equality (Fe); the preprocessed lane view reads fields in declaration order (generated from the real struct)')
    u.assume('R6 helpers: iter().any(|&h| h) = any_true; usize::saturating_sub / min / is_multiple_of; core::mem::take(&mut v) = move out and leave an empty vector')
    u.assume('lanes >= 1, pack_k >= 1, preprocessed length < 2^32 (64-bit usize)')
    u.text(PRELUDE)
    u.text(gen_views())
    u.text(SPEC)
    A = 'circuit-prover/src/air/alu_air.rs'
    IMPL = r'impl<F: Field \+ PrimeCharacteristicRing \+ Copy, const D: usize> AluAir<F, D>'

    cs = u.extract(A, IMPL, 'compute_schedule', 'AluAir::compute_schedule')
    cs.set_sig('R11', 'fn compute_schedule(preprocessed: &[Fe], lanes: usize, pack_k: usize) -> Option<Vec<ScheduleEntry>>')
    cs.rewrite_re('R11', r'let (\w+): &AluPrepLaneCols<F> = (\w+)\[([^\]]+)\]\.borrow\(\);', r'let \1 = borrow_prep(&\2[\3]);', min_count=1)
    cs.rewrite_re('R11', r'\bF::ONE\b', 'Fe::one()', min_count=1)
    unmap_collect(cs)
    cs.rewrite_re('R6', r'!(\w+)\.iter\(\)\.any\(\|&h\| h\)', r'!any_true(&\1)')
    cs.rewrite_re('R5', r'for \((\w+), &(\w+)\) in (\w+)\.iter\(\)\.enumerate\(\) \{', r'for \1 in 0..\3.len() { let \2 = \3[\1];')
    cs.rewrite_re('R6', r'(\w+)\.push\(core::mem::take\(&mut (\w+)\)\);', r'\1.push(\2); \2 = Vec::new();')
    fr = hoist_closure(cs, 'fill_row')
    cs.rewrite_re('R6', r'fill_row\(&mut schedule, &mut nc, &non_chain\)', 'fill_row(&mut schedule, &mut nc, &non_chain, lanes)')
    cs.rewrite_re('R5', r'for \((\w+), (\w+)\) in (\w+)\.iter\(\)\.enumerate\(\) \{', r'for \1 in 0..\3.len() { let \2 = &\3[\1];')
    cs.rewrite_re('R9', r'debug_assert_eq!\(schedule\.len\(\) % lanes, 0, "chain op not at lane 0"\);', 'assert(schedule.len() % lanes == 0); // @@A:chain_op_at_lane_0')
    cs.rewrite_re('R6', r'(\w+)\.len\(\)\.saturating_sub\((\w+)\)\.min\((\w+)\)', r'min_(sat_sub(\1.len(), \2), \3)')
    # R5: `for k in (2..=hi).rev() { B }` with `break` -> descending while loop
    cs.rewrite_re('R5', r'for k in \(2\.\.=(\w+)\)\.rev\(\) \{', r'let mut k = \1; while k >= 2 {')
    cs.rewrite_re('R5', r'(best_k = k;\s*break;\s*\})\s*\}', r'\1 k = k - 1; }')
    cs.rewrite_re('R5', r'for j in 1\.\.k \{', 'let mut j = 1usize; while j < k {')
    cs.rewrite_re('R5', r'(contiguous = false;\s*break;\s*\})\s*\}', r'\1 j = j + 1; }')
    cs.rewrite_re('R11', r'Self::horner_ops_share_b_idx\(', 'horner_ops_share_b_idx(')
    cs.rewrite_re('R6', r'&chain\[i\.\.i \+ k\]', 'chain, i, k')
    return stage2(u, cs, fr, A, IMPL)


def stage2(u, cs, fr, A, IMPL):
    # ---------------------------------------------------------------- the hoisted closure as a function under contract
    from vf.extract import Extracted
    from vf.unit import Fn
    params, body = fr
    ex = Extracted()
    ex.file, ex.container, ex.name, ex.sig, ex.body = A, 'AluAir::compute_schedule', 'fill_row (closure)', 'fn fill_row(' + params + ')', body
    ex.sha256 = cs.ex.sha256
    fl = Fn(u, ex, 'AluAir::compute_schedule::fill_row')
    u.fns.append(fl)
    fl.set_sig('R6', 'fn fill_row(schedule: &mut Vec<ScheduleEntry>, nc: &mut usize, non_chain: &Vec<usize>, lanes: usize)', sliced=True)
    fl.rewrite_re('R6', r'!schedule\.len\(\)\.is_multiple_of\(lanes\)', 'schedule.len() % lanes != 0')
    fl.rewrite_re('R6', r'\*nc \+= 1;', '*nc = *nc + 1;')
    fl.requires('geometry', 'lanes >= 1 && *old(nc) <= non_chain@.len() && old(schedule)@.len() < 0x1_0000_0000_0000')
    fl.ensures('completes_the_row_with_pending_ops_then_separators', 'filled(old(schedule)@, final(schedule)@, *old(nc) as int, *final(nc) as int, non_chain@, lanes as int)')
    fl.at_start('let ghost l0 = schedule@.len() as int; let ghost lz = lanes as int; let ghost r0 = l0 % lz; let ghost n0 = *nc as int; proof { lemma_mod_step(l0, lz, 0); }')
    fl.loop('while schedule.len() % lanes != 0', invariants=[
        ('ctx', 'lz == lanes && lz >= 1 && l0 == old(schedule)@.len() && r0 == l0 % lz && n0 == *old(nc) && n0 <= non_chain@.len() && l0 < 0x1_0000_0000_0000'),
        ('row', 'l0 <= schedule@.len() && r0 + (schedule@.len() - l0) <= lz && (schedule@.len() > l0 ==> r0 > 0)'),
        ('prefix', 'schedule@.subrange(0, l0) == old(schedule)@'),
        ('appended', 'forall|p: int| l0 <= p < schedule@.len() ==> (#[trigger] schedule@[p]) == fill_entry(non_chain@, n0, p - l0)'),
        ('cursor', '*nc == (if n0 + (schedule@.len() - l0) <= non_chain@.len() { n0 + (schedule@.len() - l0) } else { non_chain@.len() as int })'),
    ], decreases='lz - r0 - (schedule@.len() - l0)')
    fl.at_loop_end('while schedule.len() % lanes != 0', 'proof { lemma_mod_step(l0, lz, schedule@.len() - l0); assert(schedule@.subrange(0, l0) =~= sb_.subrange(0, l0)); }')
    # loop body start: ghost snapshot + the modular fact that lets the push stay inside the row
    i = fl.body.index('{', fl.body.index('decreases lz - r0'))
    fl.body = fl.body[:i + 1] + ' let ghost sb_ = schedule@; proof { lemma_mod_step(l0, lz, schedule@.len() - l0); } ' + fl.body[i + 1:]
    fl.at_end('proof { lemma_mod_step(l0, lz, schedule@.len() - l0); }')
    u.text("""verus! {
#[verifier::external_body]
pub fn any_true(v: &Vec<bool>) -> (r: bool) ensures r == exists|i: int| 0 <= i < v@.len() && v@[i] { unimplemented!() }
pub fn sat_sub(a: usize, b: usize) -> (r: usize) ensures r == (if a >= b { a - b } else { 0 }) { if a >= b { a - b } else { 0 } }
pub fn min_(a: usize, b: usize) -> (r: usize) ensures r == (if a <= b { a as int } else { b as int }) { if a <= b { a } else { b } }
}""")
    u.fill_fn = fl
    return stage3(u, cs, A, IMPL)


def stage3(u, cs, A, IMPL):
    sb = u.extract(A, IMPL, 'horner_ops_share_b_idx', 'AluAir::horner_ops_share_b_idx')
    sb.set_sig('R11', 'fn horner_ops_share_b_idx(preprocessed: &[Fe], plw: usize, op_indices: &[usize]) -> bool')
    u.fns.remove(sb)   # not brought under contract in this stage: assumed stub below
    u.text('''verus! {
/// ASSUMED (stage 1): all listed operations read the same `b` index
#[verifier::external_body]
pub fn horner_ops_share_b_idx(preprocessed: &[Fe], plw: usize, chain: &Vec<usize>, i: usize, k: usize) -> (r: bool)
    requires i + k <= chain@.len()
    ensures r == forall|j: int| 0 <= j < k ==> #[trigger] b_of(preprocessed@, chain@[i + j] as int) == b_of(preprocessed@, chain@[i as int] as int)
{ unimplemented!() }
}''')
    cs.requires('geometry', 'lanes >= 1 && pack_k >= 1 && preprocessed@.len() < 0x1_0000_0000')
    u.text('verus! {')
    u.emit(u.fill_fn)
    u.emit(cs)
    u.text('}')
    return u
