// lemmas for unit sched (schedule bookkeeping)
verus! {
pub open spec fn ints(v: Seq<usize>) -> Seq<int> { Seq::new(v.len(), |i: int| v[i] as int) }
pub open spec fn flat(cs: Seq<Vec<usize>>) -> Seq<int> decreases cs.len() {
    if cs.len() == 0 { Seq::empty() } else { flat(cs.drop_last()) + ints(cs.last()@) }
}
/// a chain is a non-empty run of consecutive operation indices, all Horner
pub open spec fn run_ok(pre: Seq<Fe>, c: Seq<usize>) -> bool {
    c.len() > 0 && forall|j: int| 0 <= j < c.len() ==> (#[trigger] c[j]) == c[0] + j && is_h(pre, c[j] as int) && c[j] < n_ops(pre)
}
pub open spec fn all_other(pre: Seq<Fe>, v: Seq<usize>) -> bool { forall|q: int| 0 <= q < v.len() ==> !is_h(pre, (#[trigger] v[q]) as int) && v[q] < n_ops(pre) }
/// s1 is s0 followed by fill entries starting at cursor n0
pub open spec fn appended(s0: Seq<ScheduleEntry>, s1: Seq<ScheduleEntry>, n0: int, non_chain: Seq<usize>) -> bool {
    &&& s0.len() <= s1.len() && s1.subrange(0, s0.len() as int) == s0
    &&& forall|p: int| s0.len() <= p < s1.len() ==> (#[trigger] s1[p]) == fill_entry(non_chain, n0, p - s0.len())
}
pub open spec fn cursor_after(n0: int, a: int, len: int) -> int { if n0 + a <= len { n0 + a } else { len } }
pub open spec fn last_lane0(s: Seq<ScheduleEntry>, lanes: int) -> ScheduleEntry { s[s.len() - lanes] }

pub proof fn lemma_push_ops(pre: Seq<Fe>, s: Seq<ScheduleEntry>, e: ScheduleEntry)
    ensures chain_ops(pre, s.push(e)) == chain_ops(pre, s) + e_chain(pre, e), other_ops(pre, s.push(e)) == other_ops(pre, s) + e_other(pre, e)
{
    assert(s.push(e).drop_last() =~= s);
}
/// fill entries are ordinary operations or separators: they extend other_ops by the consumed part of non_chain and leave the Horner bookkeeping alone
pub proof fn lemma_appended(pre: Seq<Fe>, s0: Seq<ScheduleEntry>, s1: Seq<ScheduleEntry>, n0: int, non_chain: Seq<usize>, lanes: int, pack_k: int)
    requires appended(s0, s1, n0, non_chain), all_other(pre, non_chain), 0 <= n0 <= non_chain.len(), lanes >= 1,
    ensures chain_ops(pre, s1) == chain_ops(pre, s0),
            other_ops(pre, s1) == other_ops(pre, s0) + ints(non_chain).subrange(n0, cursor_after(n0, s1.len() - s0.len(), non_chain.len() as int)),
            lane0_discipline(pre, s0, lanes) ==> lane0_discipline(pre, s1, lanes),
            packs_ok(pre, s0, pack_k) ==> packs_ok(pre, s1, pack_k),
            forall|p: int| s0.len() <= p < s1.len() ==> !is_chain_entry(pre, #[trigger] s1[p]),
    decreases s1.len() - s0.len()
{
    let len = non_chain.len() as int;
    if s1.len() == s0.len() {
        assert(s1 =~= s0);
        assert(ints(non_chain).subrange(n0, n0) =~= Seq::<int>::empty());
        assert(other_ops(pre, s0) + Seq::<int>::empty() =~= other_ops(pre, s0));
    } else {
        let t = s1.drop_last(); let e = s1.last(); let a = s1.len() - s0.len();
        assert(t.subrange(0, s0.len() as int) =~= s1.subrange(0, s0.len() as int));
        assert forall|p: int| s0.len() <= p < t.len() implies (#[trigger] t[p]) == fill_entry(non_chain, n0, p - s0.len()) by { assert(t[p] == s1[p]); }
        lemma_appended(pre, s0, t, n0, non_chain, lanes, pack_k);
        assert(s1 =~= t.push(e));
        lemma_push_ops(pre, t, e);
        assert(e == fill_entry(non_chain, n0, a - 1));
        if n0 + a - 1 < len {
            let x = non_chain[n0 + a - 1];
            assert(!is_h(pre, x as int));
            assert(e_chain(pre, e) =~= Seq::<int>::empty());
            assert(e_other(pre, e) =~= seq![x as int]);
            assert(ints(non_chain).subrange(n0, n0 + a) =~= ints(non_chain).subrange(n0, n0 + a - 1).push(x as int));
            assert(ints(non_chain).subrange(n0, n0 + a - 1) + seq![x as int] =~= ints(non_chain).subrange(n0, n0 + a - 1).push(x as int));
            assert(other_ops(pre, s1) =~= other_ops(pre, s0) + ints(non_chain).subrange(n0, n0 + a));
        } else {
            assert(e_chain(pre, e) =~= Seq::<int>::empty());
            assert(e_other(pre, e) =~= Seq::<int>::empty());
            assert(other_ops(pre, s1) =~= other_ops(pre, t));
        }
        assert(chain_ops(pre, s1) =~= chain_ops(pre, t));
        if lane0_discipline(pre, s0, lanes) {
            assert forall|p: int| 0 <= p < s1.len() && is_chain_entry(pre, #[trigger] s1[p]) implies p % lanes == 0 by {
                if p < t.len() { assert(t[p] == s1[p]); }
            }
        }
        if packs_ok(pre, s0, pack_k) {
            assert forall|p: int| 0 <= p < s1.len() implies ((#[trigger] s1[p]) matches ScheduleEntry::PackedHorner(i, k) ==>
                2 <= k <= pack_k && i + k <= n_ops(pre) && forall|j: int| 0 <= j < k ==> #[trigger] b_of(pre, i + j) == b_of(pre, i as int)) by {
                if p < t.len() { assert(t[p] == s1[p]); }
            }
        }
        assert forall|p: int| s0.len() <= p < s1.len() implies !is_chain_entry(pre, #[trigger] s1[p]) by {
            if p < t.len() { assert(t[p] == s1[p]); }
        }
    }
}
/// everything about one fill_row call
pub proof fn lemma_fill(pre: Seq<Fe>, s0: Seq<ScheduleEntry>, s1: Seq<ScheduleEntry>, n0: int, n1: int, non_chain: Seq<usize>, lanes: int, pack_k: int)
    requires filled(s0, s1, n0, n1, non_chain, lanes), all_other(pre, non_chain), 0 <= n0 <= non_chain.len(), lanes >= 1,
    ensures chain_ops(pre, s1) == chain_ops(pre, s0),
            other_ops(pre, s1) == other_ops(pre, s0) + ints(non_chain).subrange(n0, n1), n0 <= n1 <= non_chain.len(),
            lane0_discipline(pre, s0, lanes) ==> lane0_discipline(pre, s1, lanes),
            packs_ok(pre, s0, pack_k) ==> packs_ok(pre, s1, pack_k),
            rows_chain_ok(pre, s0, lanes) && s0.len() > 0 ==> rows_chain_ok(pre, s1, lanes),
            // a row that was started is completed: its lane-0 entry is the last row's lane-0 entry afterwards
            s0.len() >= 1 && (s0.len() - 1) % lanes == 0 ==> s1.len() == s0.len() - 1 + lanes && last_lane0(s1, lanes) == s0[s0.len() - 1],
{
    lemma_appended(pre, s0, s1, n0, non_chain, lanes, pack_k);
    if rows_chain_ok(pre, s0, lanes) && s0.len() > 0 {
        assert(s1[0] == s0[0]) by { assert(s1.subrange(0, s0.len() as int)[0] == s0[0]); }
        assert forall|p: int| lanes <= p < s1.len() && p % lanes == 0 && is_chain_entry(pre, #[trigger] s1[p]) && is_chain_entry(pre, s1[p - lanes])
            implies first_op(s1[p]) == last_op(s1[p - lanes]) + 1 by {
            assert(p < s0.len());
            assert(s1.subrange(0, s0.len() as int)[p] == s0[p]); assert(s1.subrange(0, s0.len() as int)[p - lanes] == s0[p - lanes]);
        }
    }
    if s0.len() >= 1 && (s0.len() - 1) % lanes == 0 {
        let p = s0.len() - 1;
        // s1.len() is the next multiple of lanes above p
        vstd::arithmetic::div_mod::lemma_fundamental_div_mod(p as int, lanes);
        vstd::arithmetic::div_mod::lemma_fundamental_div_mod(s1.len() as int, lanes);
        let q0 = p / lanes; let q1 = s1.len() as int / lanes;
        assert(s1.len() == lanes * q1 && p == lanes * q0);
        assert(p < s1.len() <= p + lanes);
        assert(q1 == q0 + 1) by (nonlinear_arith) requires lanes * q0 < lanes * q1, lanes * q1 <= lanes * q0 + lanes, lanes >= 1;
        assert(lanes * (q0 + 1) == lanes * q0 + lanes) by (nonlinear_arith);
        assert(s1.subrange(0, s0.len() as int)[p as int] == s0[p as int]);
    }
}
pub proof fn lemma_hs_props(pre: Seq<Fe>, n: int)
    requires 0 <= n <= n_ops(pre)
    ensures forall|q: int| 0 <= q < hs_upto(pre, n).len() ==> is_h(pre, #[trigger] hs_upto(pre, n)[q]) && 0 <= hs_upto(pre, n)[q] < n,
            forall|q: int| 0 <= q < os_upto(pre, n).len() ==> !is_h(pre, #[trigger] os_upto(pre, n)[q]) && 0 <= os_upto(pre, n)[q] < n,
    decreases n
{
    if n > 0 {
        lemma_hs_props(pre, n - 1);
        let (h0, o0) = (hs_upto(pre, n - 1), os_upto(pre, n - 1));
        assert forall|q: int| 0 <= q < hs_upto(pre, n).len() implies is_h(pre, #[trigger] hs_upto(pre, n)[q]) && 0 <= hs_upto(pre, n)[q] < n by {
            if q < h0.len() { assert(hs_upto(pre, n)[q] == h0[q]); }
        }
        assert forall|q: int| 0 <= q < os_upto(pre, n).len() implies !is_h(pre, #[trigger] os_upto(pre, n)[q]) && 0 <= os_upto(pre, n)[q] < n by {
            if q < o0.len() { assert(os_upto(pre, n)[q] == o0[q]); }
        }
    }
}
pub proof fn lemma_os_len(pre: Seq<Fe>, n: int)
    requires 0 <= n
    ensures os_upto(pre, n).len() <= n, hs_upto(pre, n).len() <= n
    decreases n
{
    if n > 0 { lemma_os_len(pre, n - 1); }
}
pub proof fn lemma_flat_push(cs: Seq<Vec<usize>>, c: Vec<usize>)
    ensures flat(cs.push(c)) == flat(cs) + ints(c@)
{
    assert(cs.push(c).drop_last() =~= cs);
}
pub proof fn lemma_flat_take(cs: Seq<Vec<usize>>, k: int)
    requires 0 <= k < cs.len()
    ensures flat(cs.take(k + 1)) == flat(cs.take(k)) + ints(cs[k]@)
{
    assert(cs.take(k + 1).drop_last() =~= cs.take(k));
}
} // verus!
verus! {
pub proof fn lemma_push_plain(pre: Seq<Fe>, s: Seq<ScheduleEntry>, e: ScheduleEntry, lanes: int, pk: int)
    requires lanes >= 1, !is_chain_entry(pre, e), !(e is PackedHorner), lane0_discipline(pre, s, lanes), packs_ok(pre, s, pk),
             (s.len() > 0 ==> rows_chain_ok(pre, s, lanes)), (s.len() == 0 ==> e is Separator),
    ensures lane0_discipline(pre, s.push(e), lanes), packs_ok(pre, s.push(e), pk), rows_chain_ok(pre, s.push(e), lanes),
            chain_ops(pre, s.push(e)) == chain_ops(pre, s), other_ops(pre, s.push(e)) == other_ops(pre, s) + e_other(pre, e),
{
    let t = s.push(e);
    lemma_push_ops(pre, s, e);
    assert(e_chain(pre, e) =~= Seq::<int>::empty());
    assert(chain_ops(pre, s) + Seq::<int>::empty() =~= chain_ops(pre, s));
    assert forall|p: int| 0 <= p < t.len() && is_chain_entry(pre, #[trigger] t[p]) implies p % lanes == 0 by { if p < s.len() { assert(t[p] == s[p]); } }
    assert forall|p: int| 0 <= p < t.len() implies ((#[trigger] t[p]) matches ScheduleEntry::PackedHorner(i, k) ==>
        2 <= k <= pk && i + k <= n_ops(pre) && forall|j: int| 0 <= j < k ==> #[trigger] b_of(pre, i + j) == b_of(pre, i as int)) by { if p < s.len() { assert(t[p] == s[p]); } }
    assert forall|p: int| lanes <= p < t.len() && p % lanes == 0 && is_chain_entry(pre, #[trigger] t[p]) && is_chain_entry(pre, t[p - lanes])
        implies first_op(t[p]) == last_op(t[p - lanes]) + 1 by { assert(p < s.len()); assert(t[p] == s[p] && t[p - lanes] == s[p - lanes]); }
    if s.len() > 0 { assert(t[0] == s[0]); }
}
pub proof fn lemma_push_chain_entry(pre: Seq<Fe>, s: Seq<ScheduleEntry>, e: ScheduleEntry, lanes: int, pk: int)
    requires lanes >= 1, s.len() >= lanes, s.len() % (lanes as nat) == 0, lane0_discipline(pre, s, lanes), packs_ok(pre, s, pk), rows_chain_ok(pre, s, lanes),
             is_chain_entry(pre, e),
             is_chain_entry(pre, last_lane0(s, lanes)) ==> first_op(e) == last_op(last_lane0(s, lanes)) + 1,
             e matches ScheduleEntry::PackedHorner(i, k) ==> 2 <= k <= pk && i + k <= n_ops(pre) && forall|j: int| 0 <= j < k ==> #[trigger] b_of(pre, i + j) == b_of(pre, i as int),
    ensures lane0_discipline(pre, s.push(e), lanes), packs_ok(pre, s.push(e), pk), rows_chain_ok(pre, s.push(e), lanes),
{
    let t = s.push(e);
    assert forall|p: int| 0 <= p < t.len() && is_chain_entry(pre, #[trigger] t[p]) implies p % lanes == 0 by { if p < s.len() { assert(t[p] == s[p]); } }
    assert forall|p: int| 0 <= p < t.len() implies ((#[trigger] t[p]) matches ScheduleEntry::PackedHorner(i, k) ==>
        2 <= k <= pk && i + k <= n_ops(pre) && forall|j: int| 0 <= j < k ==> #[trigger] b_of(pre, i + j) == b_of(pre, i as int)) by { if p < s.len() { assert(t[p] == s[p]); } }
    assert forall|p: int| lanes <= p < t.len() && p % lanes == 0 && is_chain_entry(pre, #[trigger] t[p]) && is_chain_entry(pre, t[p - lanes])
        implies first_op(t[p]) == last_op(t[p - lanes]) + 1 by {
        if p < s.len() { assert(t[p] == s[p] && t[p - lanes] == s[p - lanes]); }
        else { assert(t[p - lanes] == s[s.len() - lanes]); }
    }
    assert(t[0] == s[0]);
}
} // verus!
