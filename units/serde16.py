"""Unit `serde16` (C16): the (de)serialization of BatchStarkProof::stark_common keeps the preprocessed binding.

Real text: circuit-prover/src/batch_stark_prover.rs {SerializedStarkCommon::from_common, SerializedStarkCommon::into_common,
serde_stark_common::deserialize (composition skeleton), clone_common_data}; the structs SerializedStarkCommon / SerializedPreprocessedInstanceMeta
are extracted on every run.
Spec: serialize is `from_common(value).serialize(..)`, deserialize is `Option::<SerializedStarkCommon>::deserialize(..)?.map(into_common).unwrap_or_else(..)`.
With the derived serde codec of the mirror structs assumed lossless (trusted dependency), the round trip is the COMPOSITION
into_common(from_common(c)) -- built here mechanically from the two real bodies and the real deserialize skeleton (R13) -- and must return
common data whose `preprocessed` part (commitment, per-instance metadata, matrix_to_instance) equals the original: that is everything the
verifier reads from stark_common (unit vrfy: lookups are rebuilt from the AIRs)."""
import os
import re

from vf.extract import extract_item, match_brace
from vf.unit import Unit, unmap_iter_collect_general

HERE = os.path.dirname(os.path.abspath(__file__))

PRELUDE = r'''#![allow(unused_imports, unused_variables, dead_code, unused_mut, unused_parens)]
use vstd::prelude::*;
verus! {
global size_of usize == 8;
/// PCS commitment: opaque, clonable
pub struct Comm { pub id: Ghost<int> }
impl Clone for Comm { #[verifier::external_body] fn clone(&self) -> (r: Comm) ensures r == *self { unimplemented!() } }
/// p3-batch-stark 0.6.3 common.rs (transcribed: upstream types)
pub struct PreprocessedInstanceMeta { pub matrix_index: usize, pub width: usize, pub degree_bits: usize }
pub struct GlobalPreprocessed { pub commitment: Comm, pub instances: Vec<Option<PreprocessedInstanceMeta>>, pub matrix_to_instance: Vec<usize> }
pub struct Lookups { pub id: Ghost<int> }
impl Clone for Lookups { #[verifier::external_body] fn clone(&self) -> (r: Lookups) ensures r == *self { unimplemented!() } }
pub struct CommonData { pub preprocessed: Option<GlobalPreprocessed>, pub lookups: Vec<Lookups> }
impl CommonData { pub fn new(preprocessed: Option<GlobalPreprocessed>, lookups: Vec<Lookups>) -> (r: Self) ensures r.preprocessed == preprocessed && r.lookups == lookups { CommonData { preprocessed, lookups } } }

pub open spec fn meta_view(m: Option<PreprocessedInstanceMeta>) -> Option<(usize, usize, usize)> { match m { Some(x) => Some((x.matrix_index, x.width, x.degree_bits)), None => None } }
/// everything the verifier reads from a GlobalPreprocessed
pub open spec fn gp_view(g: Option<GlobalPreprocessed>) -> Option<(Comm, Seq<Option<(usize, usize, usize)>>, Seq<usize>)> {
    match g { Some(x) => Some((x.commitment, Seq::new(x.instances@.len(), |i: int| meta_view(x.instances@[i])), x.matrix_to_instance@)), None => None }
}
/// pointwise form of gp_view(a) == gp_view(b)
pub open spec fn same_binding(a: Option<GlobalPreprocessed>, b: Option<GlobalPreprocessed>) -> bool {
    match (a, b) {
        (Some(x), Some(y)) => x.commitment == y.commitment && x.matrix_to_instance@ == y.matrix_to_instance@ && x.instances@.len() == y.instances@.len()
            && forall|i: int| 0 <= i < x.instances@.len() ==> meta_view(#[trigger] x.instances@[i]) == meta_view(y.instances@[i]),
        (None, None) => true,
        _ => false,
    }
}
pub proof fn lemma_same_binding(a: Option<GlobalPreprocessed>, b: Option<GlobalPreprocessed>) requires same_binding(a, b) ensures gp_view(a) == gp_view(b) {
    if a is Some { assert(gp_view(a).unwrap().1 =~= gp_view(b).unwrap().1); }
}
#[verifier::external_body]
pub fn clone_usizes(v: &Vec<usize>) -> (r: Vec<usize>) ensures r@ == v@ { v.clone() }
#[verifier::external_body]
pub fn clone_lookups(v: &Vec<Lookups>) -> (r: Vec<Lookups>) ensures r@ == v@ { unimplemented!() }
} // verus!
'''


def unoption_map(f):
    """R6: `RECV.map(|x| BODY)` on an Option receiver (RECV ends in `.as_ref()` or is the closure parameter `opt`) -> `(match RECV { Some(x) => Some(BODY), None => None })`"""
    n = 0
    while True:
        m = re.search(r'((?:\w+(?:\s*\.\s*\w+)*\s*\.\s*as_ref\(\))|\bopt)\s*\.\s*map(\()\s*\|(\w+)\|', f.body)
        if not m:
            break
        close = match_brace(f.body, m.start(2))
        inner = f.body[m.start(2) + 1:close]
        body = re.sub(r'^\s*\|\w+\|\s*', '', inner).strip().rstrip(',').strip()
        recv = ''.join(m.group(1).split())
        recv = re.sub(r'\.as_ref\(\)$', '', recv)
        recv = recv if recv == 'opt' else '&' + recv
        f.body = f.body[:m.start()] + f'(match {recv} {{ Some({m.group(3)}) => Some({body}), None => None }})' + f.body[close + 1:]
        n += 1
    if n:
        f.rewrites.append(('R6', f'Option `.as_ref().map(|x| BODY)` / `opt.map(|x| BODY)` -> match x{n} (BODY verbatim)', ''))
    return f


def norm(f):
    f.rewrite_re('R11', r'\bSelf \{', 'SerializedStarkCommon {', min_count=0)
    f.rewrite_re('R6', r'(\w+)\.matrix_to_instance\.clone\(\)', r'clone_usizes(&\1.matrix_to_instance)', min_count=0)
    f.rewrite_re('R6', r'(\w+)\.lookups\.clone\(\)', r'clone_lookups(&\1.lookups)', min_count=0)
    f.rewrite_re('R5', r'\.into_iter\(\)\s*\.map\(', '.iter().map(', min_count=0)
    unoption_map(f)
    unmap_iter_collect_general(f)
    return f


def build():
    u = Unit('serde16', ['C16'])
    u.rlimit = 60
    u.assume('the serde-derived codec of the mirror structs SerializedStarkCommon / SerializedPreprocessedInstanceMeta (and of Option / Vec / usize / the PCS commitment) is lossless: deserialize(serialize(x)) == x (trusted dependency: serde + postcard/bincode)')
    u.assume('GlobalPreprocessed / PreprocessedInstanceMeta / CommonData transcribed from p3-batch-stark 0.6.3 common.rs; commitment and lookups clone to equal values')
    u.assume('R5: consuming `.into_iter().map(..)` over an owned Vec read as `.iter().map(..)` (elements are plain-data mirrors, read once)')
    B = 'circuit-prover/src/batch_stark_prover.rs'
    st1 = extract_item(B, r'struct SerializedPreprocessedInstanceMeta\b')
    st2 = extract_item(B, r'struct SerializedStarkCommon<SC: StarkGenericConfig>')
    st2 = st2.replace('<SC: StarkGenericConfig>', '')
    st2 = re.sub(r'commitment:\s*<SC::Pcs as Pcs<SC::Challenge, SC::Challenger>>::Commitment', 'commitment: Comm', st2)
    st2 = re.sub(r'Vec<Option<SerializedPreprocessedInstanceMeta>>', 'Vec<Option<SerializedPreprocessedInstanceMeta>>', st2)
    u.text(PRELUDE)
    u.text('verus! {\nspec fn ser_meta_view(m: Option<SerializedPreprocessedInstanceMeta>) -> Option<(usize, usize, usize)> { match m { Some(x) => Some((x.matrix_index, x.width, x.degree_bits)), None => None } }\n}')
    u.text('verus! {\n// extracted on every run from batch_stark_prover.rs (R11: SC erased, the commitment type is the opaque Comm)\npub ' + st1 + '\npub ' + st2 + '\n}')
    IMPL = r'impl<SC: StarkGenericConfig> SerializedStarkCommon<SC>'
    fc = norm(u.extract(B, IMPL, 'from_common', 'SerializedStarkCommon::from_common+into_common[round trip]'))
    ic = norm(u.extract(B, IMPL, 'into_common', 'SerializedStarkCommon::into_common'))
    de = u.extract(B, '', 'deserialize', 'serde_stark_common::deserialize')
    # R13: the round trip = deserialize's own skeleton with the codec step replaced by the value serialize produced
    m = re.search(r'let parsed: Option<SerializedStarkCommon<SC>> = Option::deserialize\(deserializer\)\?;\s*Ok\(\s*parsed\s*\.map\(SerializedStarkCommon::into_common\)\s*\.unwrap_or_else\(\|\|\s*(.*?)\)\s*,?\s*\)\s*\}\s*$', de.body, flags=re.S)
    if not m:
        from vf.extract import ExtractError
        raise ExtractError('lost anchor in serde_stark_common::deserialize: skeleton `Option::deserialize(..)?` / `.map(into_common).unwrap_or_else(|| DEFAULT)` not found')
    default = m.group(1).strip()
    into_body = re.sub(r'\bself\.', 'self_.', ic.body)
    fc.body = ('{ let parsed: Option<SerializedStarkCommon> = ' + fc.body + ';\n match parsed { Some(self_) => ' + into_body + ',\n None => ' + default + ' } }')
    fc.rewrites.append(('R13', 'round trip composed from the real bodies: `parsed` = from_common body (what serialize encodes), then deserialize skeleton `parsed.map(into_common).unwrap_or_else(|| DEFAULT)` with into_common body inlined (self -> self_)', ''))
    fc.set_sig('R13', 'fn stark_common_round_trip(common: &CommonData) -> CommonData', sliced=True)
    u.fns.remove(ic)
    u.fns.remove(de)
    fc.attr('#[verifier::loop_isolation(false)]')
    fc.ensures('round_trip_keeps_the_preprocessed_binding', 'same_binding(ret.preprocessed, common.preprocessed)')
    from units.openin import loop_if_present
    loop_if_present(fc, 'for m0_ in 0..gp.instances.len()', invariants=[
        ('mirror', 'v_m0_@.len() == m0_ && forall|j: int| 0 <= j < m0_ ==> ser_meta_view(#[trigger] v_m0_@[j]) == meta_view(gp.instances@[j])')])
    loop_if_present(fc, 'for m0_ in 0..self_.instances.len()', invariants=[
        ('unmirror', 'v_m0_@.len() == m0_ && forall|j: int| 0 <= j < m0_ ==> meta_view(#[trigger] v_m0_@[j]) == ser_meta_view(self_.instances@[j])')])
    fc.ensures('lookups_are_left_to_the_verifier_to_rebuild', 'ret.lookups@.len() == 0')

    cc = norm(u.extract(B, '', 'clone_common_data', 'clone_common_data'))
    cc.set_sig('R11', 'fn clone_common_data(common: &CommonData) -> CommonData')
    cc.attr('#[verifier::loop_isolation(false)]')
    cc.ensures('same_preprocessed_binding', 'same_binding(ret.preprocessed, common.preprocessed)')
    loop_if_present(cc, 'for m0_ in 0..gp.instances.len()', invariants=[
        ('copy', 'v_m0_@.len() == m0_ && forall|j: int| 0 <= j < m0_ ==> meta_view(#[trigger] v_m0_@[j]) == meta_view(gp.instances@[j])')])
    cc.ensures('same_lookups', 'ret.lookups@ == common.lookups@')
    u.text('verus! {')
    u.emit(fc)
    u.emit(cc)
    u.text('}')
    return u
