"""Unit `serdeattr` (C16, serialization half): every `#[serde(..)]` attribute of the proof types (circuit-prover/src/**), read from the source on every run.
The workspace serialises proofs with a positional, non-self-describing format (postcard): a field is read back exactly when the deserialiser expects it, so the writer must
write it unconditionally.  Obligation per attribute: the attribute keeps "written exactly when read":
  default / default = ".." / bound / rename / with = ".." (a module providing both directions)          symmetric
  skip (both directions)                                                                                 symmetric
  skip_serializing_if, skip_serializing or skip_deserializing alone, serialize_with or deserialize_with alone, flatten, untagged, tag    NOT symmetric"""
import os
import re

from vf.extract import REPO, strip_comments, ExtractError
from vf.unit import Unit

PRELUDE = r'''
#![allow(unused_imports, unused_variables, dead_code, unused_mut, unused_parens)]
use vstd::prelude::*;
verus! {
/// the attribute leaves the field / item written by Serialize exactly when Deserialize reads it (decided from the attribute's keys)
pub open spec fn written_exactly_when_read(symmetric: bool) -> bool { symmetric }
} // verus!
'''
ASYM = ('skip_serializing_if', 'flatten', 'untagged', 'tag', 'content')


def symmetric(keys):
    ks = set(keys)
    if ks & set(ASYM):
        return False
    if ('skip_serializing' in ks) != ('skip_deserializing' in ks):
        return False
    if ('serialize_with' in ks) != ('deserialize_with' in ks):
        return False
    return True


def build():
    u = Unit('serdeattr', ['C16'])
    u.rlimit = 10
    u.assume('the proof types are serialised with a positional format (postcard, as the round-trip tests do); `with = "m"` names a module that provides both serialize and deserialize (its round trip is unit serde16)')
    u.text(PRELUDE)
    fns, n_attr = [], 0
    for dp, _, fs in os.walk(os.path.join(REPO, 'circuit-prover/src')):
        for fname in sorted(fs):
            if not fname.endswith('.rs'):
                continue
            rel = os.path.relpath(os.path.join(dp, fname), REPO)
            src = strip_comments(open(os.path.join(dp, fname)).read())
            for m in re.finditer(r'#\[serde\(([^\]]*)\)\]', src):
                keys = re.findall(r'(\w+)\s*(?:=\s*"[^"]*")?', re.sub(r'"[^"]*"', '""', m.group(1)))
                keys = [k for k in keys if k]
                # what the attribute is attached to: the next field / item name
                tail = src[m.end():m.end() + 300]
                tail = re.sub(r'#\[[^\]]*\]', '', tail)
                t = re.search(r'(?:pub(?:\([^)]*\))?\s+)?(?:(struct|enum)\s+)?(\w+)', tail)
                what = t.group(2) if t else 'item'
                line = src.count('\n', 0, m.start()) + 1
                n_attr += 1
                tag = re.sub(r'\W', '_', f'{os.path.basename(rel)[:-3]}_{what}_{"_".join(keys)}')[:90]
                sym = 'true' if symmetric(keys) else 'false'
                fns.append(f'''// @@FN:serde[{what}: {", ".join(keys)}]  <- {rel}:{line}
pub fn serde_attr_{tag}_{n_attr}() {{
    proof {{ assert(written_exactly_when_read({sym})); }} // @@A:attribute_{"_".join(keys)}_of_{what}_keeps_the_field_written_exactly_when_it_is_read
}}
// @@ENDFN:serde[{what}]''')
    if not n_attr:
        raise ExtractError('serdeattr: no #[serde(..)] attribute found in circuit-prover/src (scanner lost its anchors)')
    u.text('verus! {\n' + '\n'.join(fns) + '\n}')
    return u
