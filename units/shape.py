"""Unit `shape` (C15): shape validation returns Err on every malformed shape, Ok exactly on the well-formed one,
and never panics.  Real text: recursion/src/verifier/stark.rs validate_proof_shape."""
import re

from vf.extract import extract_item
from vf.unit import Unit, unmap_or, normalize_let_chains

PRELUDE = r'''
#![allow(unused_imports, unused_variables, dead_code, unused_mut, unused_parens)]
use vstd::prelude::*;
verus! {
global size_of usize == 8;   // standing assumption: 64-bit target
#[derive(Clone, Copy, PartialEq, Eq, Structural)]
pub struct ExprId(pub u32);
pub type Target = ExprId;
pub struct OpaqueString { pub _p: () }
#[verifier::external_body]
pub fn errmsg() -> OpaqueString { unimplemented!() }
/// error variants of recursion/src/verifier/errors.rs that the shape checks construct (message text dropped: R8)
pub enum VerificationError { InvalidProofShape(OpaqueString), RandomizationError, Other }

pub uninterp spec fn sp_dim() -> nat;                     // SC::Challenge::DIMENSION
#[verifier::external_body]
pub fn challenge_dimension() -> (r: usize) ensures r == sp_dim() { unimplemented!() }

pub trait AirStub {
    spec fn sp_width(&self) -> nat;
    /// the number of preprocessed columns the AIR's constraints read (RecursiveAir has no accessor for it: the verifiers take the width from the proof / common data)
    spec fn sp_prep_width(&self) -> nat;
    fn width(air: &Self) -> (r: usize) ensures r == air.sp_width();
}
@@TYPES@@

pub open spec fn olen(o: Option<Vec<Target>>) -> nat { match o { Some(v) => v@.len(), None => 0 } }

/// the well-formed uni-STARK opened-values shape (what the rest of verify_p3_uni_proof_circuit relies on)
pub open spec fn uni_shape_ok<A: AirStub>(air: &A, ov: &OpenedValuesTargets, pre_w: nat, has_commit: bool, qd: nat) -> bool {
    &&& has_commit == (pre_w > 0)
    &&& ov.trace_local_targets@.len() == air.sp_width() && ov.trace_next_targets@.len() == air.sp_width()
    &&& olen(ov.preprocessed_local_targets) == pre_w && olen(ov.preprocessed_next_targets) == pre_w
    &&& ov.quotient_chunks_targets@.len() == qd
    &&& forall|k: int| 0 <= k < ov.quotient_chunks_targets@.len() ==> (#[trigger] ov.quotient_chunks_targets@[k])@.len() == sp_dim()
    &&& (ov.random_targets matches Some(r) ==> r@.len() == sp_dim())
}

// ---------------------------------------------------------------- FRI proof targets: the fields the validation prefix reads
pub struct CommitPhaseProofStepTargets { pub log_arity: usize, pub sibling_coefficients: Vec<Target> }
pub struct QueryProofTargets { pub commit_phase_openings: Vec<CommitPhaseProofStepTargets> }
pub struct Opaque { pub _p: () }
pub struct FriProofTargets {
    pub commit_phase_commits: Vec<Opaque>,
    pub commit_pow_witnesses: Vec<Opaque>,
    pub query_proofs: Vec<QueryProofTargets>,
    pub final_poly: Vec<Target>,
    pub log_arities: Vec<usize>,
}
pub struct CircuitBuilderStub { pub _p: () }
impl CircuitBuilderStub {
    #[verifier::external_body] pub fn push_scope(&mut self, s: &str) {}
    #[verifier::external_body] pub fn alloc_private_inputs(&mut self, count: usize, label: &'static str) -> (r: Vec<Target>) ensures r@.len() == count { unimplemented!() }
}
/// native p3-fri CommitPhaseProofStep: `log_arity: u8` is prover-supplied
pub struct CommitPhaseProofStep { pub log_arity: u8, pub opening_proof: Opaque }
#[verifier::external_body] pub fn mmcs_proof_new(circuit: &mut CircuitBuilderStub, p: &Opaque) -> Opaque { unimplemented!() }
pub struct CommitPhaseProofStepTargetsFull { pub log_arity: usize, pub sibling_coefficients: Vec<Target>, pub opening_proof: Opaque }
pub open spec fn seq_sum(s: Seq<usize>) -> int decreases s.len() { if s.len() == 0 { 0 } else { seq_sum(s.drop_last()) + s.last() } }
pub open spec fn pow2i(k: int) -> int decreases k { if k <= 0 { 1 } else { 2 * pow2i(k - 1) } }

/// `1usize << k` is 2^k when it does not overflow
pub proof fn lemma_shl_is_pow2(k: usize)
    requires k < 64
    ensures (1usize << k) == pow2i(k as int)
    decreases k
{
    if k == 0 {
        assert((1usize << 0usize) == 1) by (bit_vector);
    } else {
        lemma_shl_is_pow2((k - 1) as usize);
        let j = (k - 1) as usize;
        assert(j < 63 ==> (1usize << ((j + 1) as usize)) == 2 * (1usize << j)) by (bit_vector);
    }
}

/// what the fold/query code after the prefix indexes with (lengths agree with the global schedule)
/// the number of FRI queries the verifier is configured with (native FriParameters::num_queries); the in-circuit verifier's parameters do not carry it
pub uninterp spec fn sp_configured_num_queries() -> usize;
/// F::TWO_ADICITY
pub uninterp spec fn sp_two_adicity() -> nat;
pub uninterp spec fn refused_for_another_reason_than_the_phase_count(fp: &FriProofTargets) -> bool;
/// FriParameters::max_log_arity of the configuration the verifier is meant to enforce (not carried by FriVerifierParams)
pub uninterp spec fn sp_configured_max_log_arity() -> nat;
#[verifier::external_body] pub fn two_adicity_() -> (r: usize) ensures r == sp_two_adicity() { unimplemented!() }
pub open spec fn fri_shape_ok(fp: &FriProofTargets, n_betas: nat, ibq: Seq<Vec<Target>>, log_blowup: nat) -> bool {
    &&& n_betas > 0
    &&& fp.commit_phase_commits@.len() == n_betas && fp.commit_pow_witnesses@.len() == n_betas && fp.log_arities@.len() == n_betas
    &&& forall|p: int| 0 <= p < fp.log_arities@.len() ==> #[trigger] fp.log_arities@[p] >= 1
    &&& fp.query_proofs@.len() == ibq.len() && ibq.len() > 0
    &&& forall|q: int| 0 <= q < ibq.len() ==> (#[trigger] ibq[q])@.len() == ibq[0]@.len()
    &&& forall|q: int| 0 <= q < fp.query_proofs@.len() ==> (#[trigger] fp.query_proofs@[q]).commit_phase_openings@.len() == n_betas
    &&& forall|q: int, p: int| 0 <= q < fp.query_proofs@.len() && 0 <= p < n_betas ==>
            (#[trigger] fp.query_proofs@[q].commit_phase_openings@[p]).log_arity == fp.log_arities@[p]
            && fp.query_proofs@[q].commit_phase_openings@[p].sibling_coefficients@.len() == (pow2i(fp.log_arities@[p] as int) - 1) * sp_dim()
    &&& ibq[0]@.len() >= seq_sum(fp.log_arities@) + log_blowup
    &&& ibq[0]@.len() <= sp_two_adicity()        // every domain generator is F::two_adic_generator(h) with h <= log_max_height
    &&& fp.final_poly@.len() == pow2i(ibq[0]@.len() - seq_sum(fp.log_arities@) - log_blowup)
}
} // verus!
'''


def types_from_repo():
    ov = extract_item('recursion/src/types/proof.rs', r'pub struct OpenedValuesTargets<SC: StarkGenericConfig>')
    ov = ov.replace('<SC: StarkGenericConfig>', '')
    ov = re.sub(r'\s*pub _phantom: PhantomData<SC>,', '', ov)
    return ov


def build():
    u = Unit('shape', ['C15'])
    u.assume('type erasure R11: SC/Challenge generics replaced by an uninterpreted extension dimension; AIR seen through width() only')
    u.assume('error message strings dropped (R8); only the error variant is specified')
    u.text(PRELUDE.replace('@@TYPES@@', types_from_repo()))
    S = 'recursion/src/verifier/stark.rs'
    v = u.extract(S, '', 'validate_proof_shape', 'validate_proof_shape')
    v.set_sig('R11', 'fn validate_proof_shape<A: AirStub, Comm>(air: &A, opened_values: &OpenedValuesTargets, preprocessed_width: usize, '
                     'preprocessed_commit: &Option<Comm>, quotient_degree: usize) -> Result<(), VerificationError>')
    v.erase_error_messages('VerificationError::InvalidProofShape')
    v.rewrite_re('R11', r'SC::Challenge::DIMENSION', 'challenge_dimension()', min_count=2)
    unmap_or(v)
    v.rewrite('R6', 'opened_quotient_chunks .iter() .any(|opened_chunk| opened_chunk.len() != challenge_dimension())',
              '({ let mut any_ = false; for k_ in 0..opened_quotient_chunks.len() { let opened_chunk = &opened_quotient_chunks[k_]; if opened_chunk.len() != challenge_dimension() { any_ = true; } } any_ })')
    normalize_let_chains(v)
    v.ensures('ok_iff_well_formed', 'ret is Ok <==> uni_shape_ok(air, opened_values, preprocessed_width as nat, preprocessed_commit.is_some(), quotient_degree as nat)')
    v.ensures('H_the_preprocessed_width_checked_against_is_the_airs_own', 'ret is Ok ==> preprocessed_width == air.sp_prep_width()')
    v.ensures('malformed_is_invalid_proof_shape', 'ret matches Err(e) ==> e is InvalidProofShape')
    v.loop('for k_ in 0..opened_quotient_chunks.len()', invariants=[
        ('any', 'any_ == exists|j: int| 0 <= j < k_ && (#[trigger] opened_quotient_chunks@[j])@.len() != sp_dim()'),
    ])
    u.text('verus! {')
    u.emit(v)
    u.text('}')

    # ---------------------------------------------------------------- FRI: validation prefix of verify_fri_circuit (R13)
    V = 'recursion/src/pcs/fri/verifier.rs'
    f = u.extract(V, '', 'verify_fri_circuit', 'verify_fri_circuit[validation prefix]')
    f.set_sig('R11', 'fn verify_fri_circuit(builder: &mut CircuitBuilderStub, fri_proof_targets: &FriProofTargets, alpha: Target, betas: &[Target], '
                     'index_bits_per_query: &[Vec<Target>], commitments_with_opening_points: &Opaque, log_blowup: usize, permutation_config: Option<Opaque>) '
                     '-> Result<usize, VerificationError>')
    f.truncate_after_next_stmt('let actual_final_poly_len = fri_proof_targets.final_poly.len();', 'Ok(log_final_poly_len)',
                     'suffix builds the fold/query constraints; it indexes with the lengths established here')
    f.erase_macro('tracing::debug!')
    f.erase_error_messages('VerificationError::InvalidProofShape')
    f.rewrite('R11', 'let ef_dim = EF::DIMENSION;', 'let ef_dim = challenge_dimension();')
    f.rewrite_re('R11', r'\bF::TWO_ADICITY\b', 'two_adicity_()', min_count=0)
    f.rewrite('R6', 'let total_log_reduction: usize = log_arities.iter().sum();',
              'let mut total_log_reduction: usize = 0; for s_ in 0..log_arities.len() { total_log_reduction = total_log_reduction + log_arities[s_]; }')
    f.rewrite('R6', 'index_bits_per_query .iter() .any(|v| v.len() != log_max_height)',
              '({ let mut any_ = false; for k_ in 0..index_bits_per_query.len() { let v = &index_bits_per_query[k_]; if v.len() != log_max_height { any_ = true; } } any_ })')
    # R6: `if let Some(P) = VEC.iter().position(|&x| COND) {` -> first-match loop + `if let Some(P) = found_pos_ {` (COND verbatim)
    mp_ = re.search(r'if let Some\((\w+)\) = (\w+)\.iter\(\)\.position\(\|&(\w+)\|\s*([^{;]*?)\) \{', f.body)
    if mp_:
        nm_, vec_, x_, cond_ = mp_.group(1), mp_.group(2), mp_.group(3), mp_.group(4).strip()
        f.body = (f.body[:mp_.start()] + f'let mut found_pos_: Option<usize> = None; for pos_ in 0..{vec_}.len() {{ let {x_} = {vec_}[pos_]; if found_pos_.is_none() && ({cond_}) {{ found_pos_ = Some(pos_); }} }} if let Some({nm_}) = found_pos_ {{' + f.body[mp_.end():])
        f.rewrites.append(('R6', '`if let Some(p) = VEC.iter().position(|&x| COND)` -> first-match loop (COND verbatim)', ''))
    f.rewrite_re('R5', r'for \(q, query_proof\) in fri_proof_targets\.query_proofs\.iter\(\)\.enumerate\(\)(?:\.skip\((\w+)\))? \{',
                 lambda m: f'for q in {m.group(1) or 0}..fri_proof_targets.query_proofs.len() {{ let query_proof = &fri_proof_targets.query_proofs[q];', min_count=1)
    f.rewrite('R5', 'for (phase, opening) in query_proof.commit_phase_openings.iter().enumerate() {', 'for phase in 0..query_proof.commit_phase_openings.len() { let opening = &query_proof.commit_phase_openings[phase];')
    f.rewrite('R6', '''log_max_height .checked_sub(total_log_reduction) .and_then(|x| x.checked_sub(log_blowup)) .ok_or_else(|| { VerificationError::InvalidProofShape(errmsg()) })?''',
              '''(match log_max_height.checked_sub(total_log_reduction) { Some(x) => match x.checked_sub(log_blowup) { Some(y) => y, None => { return Err(VerificationError::InvalidProofShape(errmsg())); } }, None => { return Err(VerificationError::InvalidProofShape(errmsg())); } })''')
    f.requires('log_arity_is_a_byte', 'forall|p: int| 0 <= p < fri_proof_targets.log_arities@.len() ==> #[trigger] fri_proof_targets.log_arities@[p] <= 255')
    f.requires('realistic_sizes', 'fri_proof_targets.log_arities@.len() < 0x1_0000_0000 && sp_dim() < 0x1_0000')
    f.loop('for s_ in 0..log_arities.len()', invariants=[
        ('sum', 'total_log_reduction == seq_sum(log_arities@.take(s_ as int)) && total_log_reduction <= 255 * s_'),
        ('pre', 'log_arities@.len() < 0x1_0000_0000 && forall|p: int| 0 <= p < log_arities@.len() ==> #[trigger] log_arities@[p] <= 255'),
    ])
    f.rewrite('SPEC', 'total_log_reduction = total_log_reduction + log_arities[s_]; }', '''total_log_reduction = total_log_reduction + log_arities[s_];
            proof { assert(log_arities@.take(s_ as int + 1).drop_last() =~= log_arities@.take(s_ as int)); } }
        proof { assert(log_arities@.take(log_arities@.len() as int) =~= log_arities@); }''')
    if 'for pos_ in 0..log_arities.len()' in f.body:
        f.loop('for pos_ in 0..log_arities.len()', invariants=[('no_zero_arity_so_far', 'found_pos_ is None <==> forall|j: int| 0 <= j < pos_ ==> #[trigger] log_arities@[j] != 0')])
    f.loop('for k_ in 0..index_bits_per_query.len()', invariants=[
        ('any', 'any_ == exists|j: int| 0 <= j < k_ && (#[trigger] index_bits_per_query@[j])@.len() != log_max_height'),
    ])
    QL = re.search(r'for q in \w+\.\.fri_proof_targets\.query_proofs\.len\(\)', f.body).group(0)
    f.loop(QL, invariants=[
        ('pre', 'log_arities@ == fri_proof_targets.log_arities@ && log_arities@.len() == num_phases && ef_dim == sp_dim()'),
        ('done', '''forall|qq: int| 0 <= qq < q ==> (#[trigger] fri_proof_targets.query_proofs@[qq]).commit_phase_openings@.len() == num_phases
                && forall|pp: int| 0 <= pp < num_phases ==> (#[trigger] fri_proof_targets.query_proofs@[qq].commit_phase_openings@[pp]).log_arity == log_arities@[pp]
                    && fri_proof_targets.query_proofs@[qq].commit_phase_openings@[pp].sibling_coefficients@.len() == (pow2i(log_arities@[pp] as int) - 1) * sp_dim()'''),
    ])
    f.loop('for phase in 0..query_proof.commit_phase_openings.len()', invariants=[
        ('pre', 'log_arities@ == fri_proof_targets.log_arities@ && log_arities@.len() == num_phases && ef_dim == sp_dim() && query_proof.commit_phase_openings@.len() == num_phases'),
        ('done', '''forall|pp: int| 0 <= pp < phase ==> (#[trigger] query_proof.commit_phase_openings@[pp]).log_arity == log_arities@[pp]
                    && query_proof.commit_phase_openings@[pp].sibling_coefficients@.len() == (pow2i(log_arities@[pp] as int) - 1) * sp_dim()'''),
    ])
    f.after('let expected_coeffs = ((1usize << expected_log_arity) - 1) * ef_dim;', 'proof { lemma_shl_is_pow2(expected_log_arity); }')
    f.after('let expected_final_poly_len = 1 << log_final_poly_len;', 'proof { lemma_shl_is_pow2(log_final_poly_len); }')
    # C15 / C07: "each list shortened ... returns an error": the number of query proofs must be the number the verifier is configured with (native: QueryProofCountMismatch).
    # FriVerifierParams carries no query count, so nothing can establish this: recorded finding (query-count-unchecked).
    if re.search(r'let num_queries = fri_proof_targets\.query_proofs\.len\(\);', f.body):
        f.rewrite_re('SPEC', r'(let num_queries = fri_proof_targets\.query_proofs\.len\(\);)',
                     r'\1 proof { assert(num_queries == sp_configured_num_queries()); } // @@A:H_the_number_of_query_proofs_is_the_configured_number_of_queries\n')
    f.ensures('ok_implies_well_formed', 'ret is Ok ==> fri_shape_ok(fri_proof_targets, betas@.len(), index_bits_per_query@, log_blowup as nat)')
    # native verify_fri: InvalidLogArity for a phase folding by more than the configured max_log_arity; FriVerifierParams carries no such bound (open finding)
    f.ensures('H_no_phase_folds_by_more_than_the_configured_max_log_arity', 'ret is Ok ==> forall|p_: int| 0 <= p_ < fri_proof_targets.log_arities@.len() ==> #[trigger] fri_proof_targets.log_arities@[p_] <= sp_configured_max_log_arity()')
    # open finding (round 17): native verify_fri accepts a proof without commit phases (every committed matrix has one row); the circuit refuses it ("FRI must have at least one fold phase")
    f.ensures('H_a_proof_without_commit_phases_is_not_refused_for_that_alone', 'betas@.len() == 0 ==> (ret is Err ==> refused_for_another_reason_than_the_phase_count(fri_proof_targets))')
    f.ensures('malformed_is_invalid_proof_shape', 'ret matches Err(e) ==> e is InvalidProofShape')
    u.text('verus! {')
    u.emit(f)
    u.text('}')

    # ---------------------------------------------------------------- CommitPhaseProofStepTargets::new : no precondition on the proof-supplied byte
    T = 'recursion/src/pcs/fri/targets.rs'
    n = u.extract(T, r'Recursive<EF> for CommitPhaseProofStepTargets<F, EF, RecMmcs>', 'new', 'CommitPhaseProofStepTargets::new')
    n.set_sig('R11', 'fn commit_phase_step_new(circuit: &mut CircuitBuilderStub, input: &CommitPhaseProofStep) -> CommitPhaseProofStepTargetsFull')
    n.rewrite('R11', 'EF::DIMENSION', 'challenge_dimension()')
    n.rewrite('R11', 'RecMmcs::Proof::new(circuit, &input.opening_proof)', 'mmcs_proof_new(circuit, &input.opening_proof)')
    n.rewrite('R11', 'Self { log_arity, sibling_coefficients, opening_proof, _phantom: PhantomData, }', 'CommitPhaseProofStepTargetsFull { log_arity, sibling_coefficients, opening_proof }')
    n.requires('realistic_dimension', 'sp_dim() < 0x1_0000')
    n.ensures('layout', 'ret.log_arity == input.log_arity && ret.sibling_coefficients@.len() == (pow2i(input.log_arity as int) - 1) * sp_dim()')
    n.after('let arity = 1usize << log_arity;', 'proof { lemma_shl_is_pow2(log_arity); }')
    u.text('verus! {')
    u.emit(n)
    u.text('}')
    return u
