"""Unit `shape` (C15): shape validation returns Err on every malformed shape, Ok exactly on the well-formed one,
and never panics.  Real text: recursion/src/verifier/stark.rs validate_proof_shape."""
import re

from vf.extract import extract_item
from vf.unit import Unit

PRELUDE = r'''
#![allow(unused_imports, unused_variables, dead_code, unused_mut, unused_parens)]
use vstd::prelude::*;
verus! {
#[derive(Clone, Copy, PartialEq, Eq, Structural)]
pub struct ExprId(pub u32);
pub type Target = ExprId;
pub struct OpaqueString { pub _p: () }
#[verifier::external_body]
pub fn errmsg() -> OpaqueString { unimplemented!() }
/// error variants of recursion/src/verifier/errors.rs that the shape checks construct (message text dropped: R8)
pub enum VerificationError { InvalidProofShape(OpaqueString), RandomizationError, Other }

pub uninterp spec fn sp_dim() -> nat;                     // SC::Challenge::DIMENSION
#[verifier::external_body]
pub fn challenge_dimension() -> (r: usize) ensures r == sp_dim() { unimplemented!() }

pub trait AirStub {
    spec fn sp_width(&self) -> nat;
    fn width(air: &Self) -> (r: usize) ensures r == air.sp_width();
}
@@TYPES@@

pub open spec fn olen(o: Option<Vec<Target>>) -> nat { match o { Some(v) => v@.len(), None => 0 } }

/// the well-formed uni-STARK opened-values shape (what the rest of verify_p3_uni_proof_circuit relies on)
pub open spec fn uni_shape_ok<A: AirStub>(air: &A, ov: &OpenedValuesTargets, pre_w: nat, has_commit: bool, qd: nat) -> bool {
    &&& has_commit == (pre_w > 0)
    &&& ov.trace_local_targets@.len() == air.sp_width() && ov.trace_next_targets@.len() == air.sp_width()
    &&& olen(ov.preprocessed_local_targets) == pre_w && olen(ov.preprocessed_next_targets) == pre_w
    &&& ov.quotient_chunks_targets@.len() == qd
    &&& forall|k: int| 0 <= k < ov.quotient_chunks_targets@.len() ==> (#[trigger] ov.quotient_chunks_targets@[k])@.len() == sp_dim()
    &&& (ov.random_targets matches Some(r) ==> r@.len() == sp_dim())
}
} // verus!
'''


def types_from_repo():
    ov = extract_item('recursion/src/types/proof.rs', r'pub struct OpenedValuesTargets<SC: StarkGenericConfig>')
    ov = ov.replace('<SC: StarkGenericConfig>', '')
    ov = re.sub(r'\s*pub _phantom: PhantomData<SC>,', '', ov)
    return ov


def build():
    u = Unit('shape', ['C15'])
    u.assume('type erasure R11: SC/Challenge generics replaced by an uninterpreted extension dimension; AIR seen through width() only')
    u.assume('error message strings dropped (R8); only the error variant is specified')
    u.text(PRELUDE.replace('@@TYPES@@', types_from_repo()))
    S = 'recursion/src/verifier/stark.rs'
    v = u.extract(S, '', 'validate_proof_shape', 'validate_proof_shape')
    v.set_sig('R11', 'fn validate_proof_shape<A: AirStub, Comm>(air: &A, opened_values: &OpenedValuesTargets, preprocessed_width: usize, '
                     'preprocessed_commit: &Option<Comm>, quotient_degree: usize) -> Result<(), VerificationError>')
    v.erase_error_messages('VerificationError::InvalidProofShape')
    v.rewrite_re('R11', r'SC::Challenge::DIMENSION', 'challenge_dimension()', min_count=2)
    v.rewrite('R6', 'opened_prep_local.as_ref().map_or(0, |v| v.len())', '(match opened_prep_local { Some(v) => v.len(), None => 0 })')
    v.rewrite('R6', 'opened_prep_next.as_ref().map_or(0, |v| v.len())', '(match opened_prep_next { Some(v) => v.len(), None => 0 })')
    v.rewrite('R6', 'opened_quotient_chunks .iter() .any(|opened_chunk| opened_chunk.len() != challenge_dimension())',
              '({ let mut any_ = false; for k_ in 0..opened_quotient_chunks.len() { let opened_chunk = &opened_quotient_chunks[k_]; if opened_chunk.len() != challenge_dimension() { any_ = true; } } any_ })')
    v.rewrite('R6', 'if let Some(r_comm) = &opened_random && r_comm.len() != challenge_dimension() {',
              'if (match &opened_random { Some(r_comm) => r_comm.len() != challenge_dimension(), None => false }) {')
    v.ensures('ok_iff_well_formed', 'ret is Ok <==> uni_shape_ok(air, opened_values, preprocessed_width as nat, preprocessed_commit.is_some(), quotient_degree as nat)')
    v.ensures('malformed_is_invalid_proof_shape', 'ret matches Err(e) ==> e is InvalidProofShape')
    v.loop('for k_ in 0..opened_quotient_chunks.len()', invariants=[
        ('any', 'any_ == exists|j: int| 0 <= j < k_ && (#[trigger] opened_quotient_chunks@[j])@.len() != sp_dim()'),
    ])
    u.text('verus! {')
    u.emit(v)
    u.text('}')
    return u
