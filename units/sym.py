"""Unit `sym` (C13): translated AIR constraints evaluate like the native symbolic evaluation.
Real text: circuit/src/symbolic/targets.rs ColumnsTargets::{resolve_base_var, resolve_ext_var};
circuit/src/symbolic/compiler.rs SymbolicCompiler::compile_base (the work-stack walk with the shared cache)."""
import os
import re

from vf.extract import extract_item, ExtractError
from vf.unit import Unit, pull_in_helpers, split_or_pattern_guard_arms, pull_work_helpers

HERE = os.path.dirname(os.path.abspath(__file__))

SPEC = r'''
use std::collections::{HashMap, HashSet, BTreeMap, BTreeSet, VecDeque};
verus! {
global size_of usize == 8;
// ---------------------------------------------------------------- p3-air symbolic vocabulary (mirrored from p3-air 0.6.3; Arc children as Box)
#[derive(Clone, Copy, PartialEq, Eq, Structural)]
pub enum BaseEntry { Preprocessed { offset: usize }, Main { offset: usize }, Periodic, Public }
#[derive(Clone, Copy, PartialEq, Eq, Structural)]
pub enum ExtEntry { Permutation { offset: usize }, Challenge, PermutationValue }
pub struct SymbolicVariable { pub entry: BaseEntry, pub index: usize }
pub enum BaseLeaf<CF> { Variable(SymbolicVariable), IsFirstRow, IsLastRow, IsTransition, Constant(CF) }
pub enum SymbolicExpression<CF> {
    Leaf(BaseLeaf<CF>),
    Add { x: Box<SymbolicExpression<CF>>, y: Box<SymbolicExpression<CF>>, degree_multiple: usize },
    Sub { x: Box<SymbolicExpression<CF>>, y: Box<SymbolicExpression<CF>>, degree_multiple: usize },
    Neg { x: Box<SymbolicExpression<CF>>, degree_multiple: usize },
    Mul { x: Box<SymbolicExpression<CF>>, y: Box<SymbolicExpression<CF>>, degree_multiple: usize },
}
pub use SymbolicExpression as SE;
/// p3-air's degree bookkeeping (an upper bound of the degree in the trace columns): it says NOTHING about the value -- public values, challenges and selectors have degree 0
impl<CF> SymbolicExpression<CF> { #[verifier::external_body] pub fn degree_multiple(&self) -> (r: usize) { unimplemented!() } }

// ---------------------------------------------------------------- types cut from /repo
@@TYPES@@

/// `node as *const _`: the cache key.  ASSUMPTION: a key identifies one node (pointer identity) for the lifetime of the cache.
#[derive(Clone, Copy, PartialEq, Eq, Hash, Structural)]
pub struct NodeKey(pub u64);
pub uninterp spec fn key_node<CF>(k: NodeKey) -> SymbolicExpression<CF>;
#[verifier::external_body]
pub fn node_key<CF>(node: &SymbolicExpression<CF>) -> (k: NodeKey) ensures key_node::<CF>(k) == *node { unimplemented!() }
pub mod ax {
    use super::*;
    pub broadcast axiom fn node_key_model() ensures #[trigger] vstd::std_specs::hash::obeys_key_model::<NodeKey>();
}
pub uninterp spec fn lift<CF, F: Field>(c: CF) -> F;                 // EF::from(base constant)
pub trait Lift<CF>: FieldX { fn from_base(c: CF) -> (r: Self) ensures r == lift::<CF, Self>(c); }

// ---------------------------------------------------------------- NATIVE evaluation of a symbolic expression (p3-air SymbolicExpr semantics)
/// values of the leaves: the opened row values / selectors the native constraint folder reads
pub struct LeafVals<F> { pub var: spec_fn(BaseEntry, usize) -> F, pub first: F, pub last: F, pub trans: F }
pub open spec fn den<CF, F: Field>(lv: LeafVals<F>, e: SymbolicExpression<CF>) -> F decreases e {
    match e {
        SE::Leaf(BaseLeaf::Variable(v)) => (lv.var)(v.entry, v.index),
        SE::Leaf(BaseLeaf::IsFirstRow) => lv.first,
        SE::Leaf(BaseLeaf::IsLastRow) => lv.last,
        SE::Leaf(BaseLeaf::IsTransition) => lv.trans,
        SE::Leaf(BaseLeaf::Constant(c)) => lift::<CF, F>(c),
        SE::Add { x, y, .. } => den(lv, *x).fadd(den(lv, *y)),
        SE::Sub { x, y, .. } => den(lv, *x).fsub(den(lv, *y)),
        SE::Neg { x, .. } => F::fzero().fsub(den(lv, *x)),
        SE::Mul { x, y, .. } => den(lv, *x).fmul(den(lv, *y)),
    }
}
pub open spec fn size<CF>(e: SymbolicExpression<CF>) -> nat decreases e {
    match e {
        SE::Leaf(_) => 1,
        SE::Neg { x, .. } => 1 + size(*x),
        SE::Add { x, y, .. } => 1 + size(*x) + size(*y),
        SE::Sub { x, y, .. } => 1 + size(*x) + size(*y),
        SE::Mul { x, y, .. } => 1 + size(*x) + size(*y),
    }
}
pub proof fn lemma_size_pos<CF>(e: SymbolicExpression<CF>) ensures size(e) >= 1 decreases e {
    match e { SE::Leaf(_) => {} SE::Neg { x, .. } => { lemma_size_pos(*x); } SE::Add { x, y, .. } => { lemma_size_pos(*x); lemma_size_pos(*y); }
              SE::Sub { x, y, .. } => { lemma_size_pos(*x); lemma_size_pos(*y); } SE::Mul { x, y, .. } => { lemma_size_pos(*x); lemma_size_pos(*y); } }
}

// ---------------------------------------------------------------- the work stack, symbolically
pub type W<'a, CF> = Work<'a, SymbolicExpression<CF>, NodeKey>;
pub open spec fn binop_node<CF>(op: BinOp, n: SymbolicExpression<CF>) -> Option<(SymbolicExpression<CF>, SymbolicExpression<CF>)> {
    match (op, n) {
        (BinOp::Add, SE::Add { x, y, .. }) => Some((*x, *y)),
        (BinOp::Sub, SE::Sub { x, y, .. }) => Some((*x, *y)),
        (BinOp::Mul, SE::Mul { x, y, .. }) => Some((*x, *y)),
        _ => None,
    }
}
/// run the pending tasks on a stack of NODES (top of both stacks = last element); None = ill-formed continuation
pub open spec fn run_nodes<CF>(tasks: Seq<W<'_, CF>>, ns: Seq<SymbolicExpression<CF>>) -> Option<Seq<SymbolicExpression<CF>>> decreases tasks.len() {
    if tasks.len() == 0 { Some(ns) } else {
        let rest = tasks.drop_last();
        match tasks.last() {
            Work::Eval(n) => run_nodes(rest, ns.push(*n)),
            Work::BuildNeg(k) => if ns.len() >= 1 && (key_node::<CF>(k) matches SE::Neg { x, .. } && *x == ns.last()) { run_nodes(rest, ns.drop_last().push(key_node::<CF>(k))) } else { None },
            Work::BuildBinary(k, op) => if ns.len() >= 2 && binop_node(op, key_node::<CF>(k)) == Some((ns[ns.len() - 2], ns[ns.len() - 1])) {
                    run_nodes(rest, ns.drop_last().drop_last().push(key_node::<CF>(k))) } else { None },
        }
    }
}
pub open spec fn weight<CF>(tasks: Seq<W<'_, CF>>) -> nat decreases tasks.len() {
    if tasks.len() == 0 { 0 } else { weight(tasks.drop_last()) + (match tasks.last() { Work::Eval(n) => (2 * size(*n) - 1) as nat, _ => 1 }) }
}
pub proof fn lemma_weight_push<CF>(tasks: Seq<W<'_, CF>>, t: W<'_, CF>)
    ensures weight(tasks.push(t)) == weight(tasks) + (match t { Work::Eval(n) => (2 * size(*n) - 1) as nat, _ => 1 })
{ assert(tasks.push(t).drop_last() =~= tasks); }
pub proof fn lemma_run_push<CF>(tasks: Seq<W<'_, CF>>, t: W<'_, CF>, ns: Seq<SymbolicExpression<CF>>)
    ensures run_nodes(tasks.push(t), ns) == (match t {
        Work::Eval(n) => run_nodes(tasks, ns.push(*n)),
        Work::BuildNeg(k) => if ns.len() >= 1 && (key_node::<CF>(k) matches SE::Neg { x, .. } && *x == ns.last()) { run_nodes(tasks, ns.drop_last().push(key_node::<CF>(k))) } else { None },
        Work::BuildBinary(k, op) => if ns.len() >= 2 && binop_node(op, key_node::<CF>(k)) == Some((ns[ns.len() - 2], ns[ns.len() - 1])) {
                run_nodes(tasks, ns.drop_last().drop_last().push(key_node::<CF>(k))) } else { None },
    })
{ assert(tasks.push(t).drop_last() =~= tasks); }

/// leaf values as the circuit sees them: what the compiler's leaf lookups return, read in the builder
pub open spec fn stack_ok<CF, F: Field>(cb: &CircuitBuilder<F>, lv: LeafVals<F>, stack: Seq<ExprId>, ns: Seq<SymbolicExpression<CF>>) -> bool {
    stack.len() == ns.len() && forall|i: int| 0 <= i < stack.len() ==> cb.has(#[trigger] stack[i]) && cb.val(stack[i]) == den(lv, ns[i])
}
pub open spec fn cache_ok<CF, F: Field>(cb: &CircuitBuilder<F>, lv: LeafVals<F>, cache: Map<NodeKey, ExprId>) -> bool {
    forall|k: NodeKey| #[trigger] cache.dom().contains(k) ==> cb.has(cache[k]) && cb.val(cache[k]) == den(lv, key_node::<CF>(k))
}
} // verus!
'''


def types_from_repo():
    d = extract_item('circuit/src/symbolic/dag.rs', r'pub\(super\) enum BinOp\b').replace('pub(super) ', 'pub ')
    w = extract_item('circuit/src/symbolic/dag.rs', r"pub\(super\) enum Work<'a, E, K>").replace('pub(super) ', 'pub ')
    rs = extract_item('circuit/src/symbolic/targets.rs', r'pub struct RowSelectorsTargets\b')
    ct = extract_item('circuit/src/symbolic/targets.rs', r"pub struct ColumnsTargets<'a>")
    sc = extract_item('circuit/src/symbolic/compiler.rs', r"pub struct SymbolicCompiler<'a>")
    sc = re.sub(r'(\n\s+)(\w+):', r'\1pub \2:', sc)
    return '#[derive(Clone, Copy)]\n' + d + '\n' + w + '\n#[derive(Clone, Copy)]\n' + rs + '\n' + ct + '\n' + sc


def build():
    u = Unit('sym', ['C13'])
    u.rlimit = 200
    u.assume('p3-air SymbolicExpression / BaseLeaf / BaseEntry / ExtEntry mirrored in the prelude (Arc children as Box); `den` is the native evaluation of a symbolic expression')
    u.assume('cache key `node as *const _` abstracted to NodeKey: a key identifies one node for the lifetime of the cache (pointer identity)')
    u.assume('builder arithmetic contracts as in unit gad (assumed); EF::from(base) is an uninterpreted embedding')
    u.text(open(os.path.join(HERE, 'gadget_prelude.rs')).read())
    u.text(SPEC.replace('@@TYPES@@', types_from_repo()))
    # pure helpers a change may add to the operation kind (e.g. a peephole on the operand): reasoned about by their bodies
    from vf.unit import pull_pure_type_helpers
    u.text(pull_pure_type_helpers(u, 'circuit/src/symbolic/dag.rs', 'BinOp', (), rewrites=[(r'\bSymbolicExpr<', 'SymbolicExpression<'), (r'\bSymbolicExpr::', 'SymbolicExpression::')]))
    u.text('verus! { broadcast use {ax::node_key_model, vstd::std_specs::hash::group_hash_axioms}; }')
    T = 'circuit/src/symbolic/targets.rs'
    rb = u.extract(T, r"impl ColumnsTargets<'_>", 'resolve_base_var', 'ColumnsTargets::resolve_base_var')
    rb.rewrite('R9', '_ => panic!("Cannot have expressions involving more than two rows."),', '_ => { assert(false); ExprId(0) }')
    split_or_pattern_guard_arms(rb)
    rb.requires('two_row_window', '(*entry matches BaseEntry::Preprocessed { offset } ==> offset <= 1) && (*entry matches BaseEntry::Main { offset } ==> offset <= 1)')
    rb.requires('index_in_range', 'index < base_slice(*self, *entry).len()')
    rb.ensures('reads_the_slice_the_native_folder_reads', 'ret == base_slice(*self, *entry)[index as int]')
    re_ = u.extract(T, r"impl ColumnsTargets<'_>", 'resolve_ext_var', 'ColumnsTargets::resolve_ext_var')
    re_.rewrite('R9', '_ => panic!("Cannot have expressions involving more than two rows."),', '_ => { assert(false); ExprId(0) }')
    re_.requires('two_row_window', '*entry matches ExtEntry::Permutation { offset } ==> offset <= 1')
    re_.requires('index_in_range', 'index < ext_slice(*self, *entry).len()')
    re_.ensures('reads_the_slice_the_native_folder_reads', 'ret == ext_slice(*self, *entry)[index as int]')
    u.text('''verus! {
/// native folder: which opened-value list an entry kind / row offset denotes
pub open spec fn base_slice(c: ColumnsTargets<'_>, e: BaseEntry) -> Seq<ExprId> {
    match e {
        BaseEntry::Preprocessed { offset } => if offset == 0 { c.local_prep_values@ } else { c.next_prep_values@ },
        BaseEntry::Main { offset } => if offset == 0 { c.local_values@ } else { c.next_values@ },
        BaseEntry::Public => c.public_values@,
        BaseEntry::Periodic => c.periodic_values@,
    }
}
pub open spec fn ext_slice(c: ColumnsTargets<'_>, e: ExtEntry) -> Seq<ExprId> {
    match e {
        ExtEntry::Permutation { offset } => if offset == 0 { c.permutation_local_values@ } else { c.permutation_next_values@ },
        ExtEntry::Challenge => c.challenges@,
        ExtEntry::PermutationValue => c.permutation_values@,
    }
}
impl ColumnsTargets<'_> {''')
    u.emit(rb)
    u.emit(re_)
    for h_ in pull_in_helpers(u, rb, T, r"impl ColumnsTargets<'_>", {'resolve_base_var', 'resolve_ext_var'}, 'ColumnsTargets') + pull_in_helpers(u, re_, T, r"impl ColumnsTargets<'_>", {'resolve_base_var', 'resolve_ext_var'}, 'ColumnsTargets'):
        u.emit(h_)
    u.text('}\n}')

    # ---------------------------------------------------------------- compile_base
    C = 'circuit/src/symbolic/compiler.rs'
    cb = u.extract(C, r"impl<'a> SymbolicCompiler<'a>", 'compile_base', 'SymbolicCompiler::compile_base')
    cb.set_sig('R11', "fn compile_base<CF: Copy, EF: Lift<CF>>(&self, expr: &SymbolicExpression<CF>, circuit: &mut CircuitBuilder<EF>, cache: &mut HashMap<NodeKey, ExprId>) -> ExprId")
    cb.rewrite('R11', 'let key = node as *const _;', 'let key = node_key(node);')
    cb.rewrite('R4', 'while let Some(work) = tasks.pop() { match work {', 'loop { match tasks.pop() { None => { break; } Some(work) => { match work {')
    cb.rewrite('R1', 'if let Some(&cached) = cache.get(&key) { stack.push(cached); continue; }', 'if let Some(cached_) = cache.get(&key) { let cached = *cached_; stack.push(cached); continue; }')
    cb.rewrite('R9', 'stack.pop().expect("operand for neg")', 'stack.pop().unwrap()')
    cb.rewrite('R9', 'stack.pop().expect("rhs")', 'stack.pop().unwrap()')
    cb.rewrite('R9', 'stack.pop().expect("lhs")', 'stack.pop().unwrap()')
    cb.rewrite('R9', 'stack.pop().expect("final target")', 'stack.pop().unwrap()')
    cb.rewrite('R11', 'circuit.define_const(EF::ZERO)', 'circuit.define_const(EF::zero())')
    cb.rewrite('R11', 'circuit.define_const(EF::from(*c))', 'circuit.define_const(EF::from_base(*c))')
    # close the extra braces introduced by R4: the loop body now ends `} } }` instead of `}`
    cb.rewrite('R4', 'cache.insert(key, id); stack.push(id); } } } stack.pop().unwrap()', 'cache.insert(key, id); stack.push(id); } } } } } stack.pop().unwrap()')
    cb.requires('leaves_allocated', 'leaves_ok(old(circuit), lv_of(*self, old(circuit)), *self)')
    cb.requires('variables_in_range', 'vars_in_range(*self, *expr)')
    cb.requires('cache_sound', 'cache_ok::<CF, EF>(old(circuit), lv_of(*self, old(circuit)), old(cache)@)')
    cb.ensures('frame', 'final(circuit).extends_pure(old(circuit)) && final(circuit).has(ret)')
    cb.ensures('value_is_native_evaluation', 'final(circuit).val(ret) == den(lv_of(*self, old(circuit)), *expr)')
    cb.ensures('cache_stays_sound', 'cache_ok::<CF, EF>(final(circuit), lv_of(*self, old(circuit)), final(cache)@)')
    u.text('''verus! {
/// leaf values = what the compiler's leaf lookups denote in the builder
pub open spec fn lv_of<F: Field>(sc: SymbolicCompiler<'_>, cb: &CircuitBuilder<F>) -> LeafVals<F> {
    LeafVals { var: |e: BaseEntry, i: usize| if (i as int) < base_slice(*sc.columns, e).len() { cb.val(base_slice(*sc.columns, e)[i as int]) } else { F::fzero() },
               first: cb.val(sc.row_selectors.is_first_row), last: cb.val(sc.row_selectors.is_last_row), trans: cb.val(sc.row_selectors.is_transition) }
}
pub open spec fn leaves_ok<F: Field>(cb: &CircuitBuilder<F>, lv: LeafVals<F>, sc: SymbolicCompiler<'_>) -> bool {
    &&& cb.has(sc.row_selectors.is_first_row) && cb.has(sc.row_selectors.is_last_row) && cb.has(sc.row_selectors.is_transition)
    &&& forall|e: BaseEntry, i: int| 0 <= i < base_slice(*sc.columns, e).len() ==> cb.has(#[trigger] base_slice(*sc.columns, e)[i])
}
/// every variable leaf addresses an existing opened value inside the two-row window (the AIR layout agrees with the openings)
pub open spec fn vars_in_range<CF>(sc: SymbolicCompiler<'_>, e: SymbolicExpression<CF>) -> bool decreases e {
    match e {
        SE::Leaf(BaseLeaf::Variable(v)) => v.index < base_slice(*sc.columns, v.entry).len()
            && (v.entry matches BaseEntry::Preprocessed { offset } ==> offset <= 1) && (v.entry matches BaseEntry::Main { offset } ==> offset <= 1),
        SE::Leaf(_) => true,
        SE::Neg { x, .. } => vars_in_range(sc, *x),
        SE::Add { x, y, .. } => vars_in_range(sc, *x) && vars_in_range(sc, *y),
        SE::Sub { x, y, .. } => vars_in_range(sc, *x) && vars_in_range(sc, *y),
        SE::Mul { x, y, .. } => vars_in_range(sc, *x) && vars_in_range(sc, *y),
    }
}
pub open spec fn tasks_in_range<CF>(sc: SymbolicCompiler<'_>, tasks: Seq<W<'_, CF>>) -> bool {
    forall|i: int| 0 <= i < tasks.len() ==> (#[trigger] tasks[i] matches Work::Eval(n) ==> vars_in_range(sc, *n))
}
impl<'a> SymbolicCompiler<'a> {''')
    cb.at_start('''let ghost lv = lv_of(*self, circuit); let ghost c0 = *circuit;
        let ghost mut ns: Seq<SymbolicExpression<CF>> = Seq::empty();''')
    cb.before('loop {', '''proof {
            assert(tasks@ =~= Seq::<W<'_, CF>>::empty().push(Work::Eval(expr)));
            lemma_run_push(Seq::<W<'_, CF>>::empty(), Work::Eval(expr), ns);
            lemma_weight_push(Seq::<W<'_, CF>>::empty(), Work::Eval(expr));
        }''')
    cb.loop('loop {', invariant_except_break=[
        ('frame', 'circuit.extends_pure(&c0) && leaves_ok(&c0, lv, *self) && lv == lv_of(*self, &c0)'),
        ('continuation', 'run_nodes(tasks@, ns) == Some(seq![*expr]) && tasks_in_range(*self, tasks@)'),
        ('stack', 'stack_ok::<CF, EF>(circuit, lv, stack@, ns)'),
        ('cache', 'cache_ok::<CF, EF>(circuit, lv, cache@)'),
    ], ensures=[
        ('done', 'circuit.extends_pure(&c0) && tasks@.len() == 0 && run_nodes(tasks@, ns) == Some(seq![*expr]) && stack_ok::<CF, EF>(circuit, lv, stack@, ns) && cache_ok::<CF, EF>(circuit, lv, cache@)'),
    ], decreases='weight(tasks@)')
    cb.before('match tasks.pop() {', 'let ghost told = tasks@;')
    cb.after('Some(work) => {', '''let ghost t0 = tasks@; let ghost ns0 = ns; let ghost st0 = stack@; let ghost cb0 = *circuit; let ghost ca0 = cache@;
                proof { assert(told =~= t0.push(work)); lemma_run_push(t0, work, ns0); lemma_weight_push(t0, work); assert(tasks_in_range(*self, t0)) by { assert forall|i: int| 0 <= i < t0.len() implies (#[trigger] t0[i] matches Work::Eval(n) ==> vars_in_range(*self, *n)) by { assert(t0[i] == t0.push(work)[i]); } } }''')
    # ---- Build arms and the leaf path end with `stack.push(id);` (three times, in source order: BuildNeg, BuildBinary, Eval-leaf)
    cb.after('stack.push(id);', '''proof {
                        let kn = key_node::<CF>(key);
                        ns = ns0.drop_last().push(kn);
                        assert(st0.len() == ns0.len() && ns0.len() >= 1);
                        assert(cb0.has(st0[st0.len() - 1]));
                        EF::sub_def(EF::fzero(), den(lv, ns0.last()));
                        lemma_stack_push::<CF, EF>(&cb0, circuit, lv, st0.drop_last(), ns0.drop_last(), id, kn);
                        lemma_cache_insert::<CF, EF>(&cb0, circuit, lv, ca0, key, id);
                    }''', nth=0)
    cb.after('stack.push(id);', '''proof {
                        let kn = key_node::<CF>(key);
                        ns = ns0.drop_last().drop_last().push(kn);
                        assert(st0.len() == ns0.len() && ns0.len() >= 2);
                        assert(cb0.has(st0[st0.len() - 1]) && cb0.has(st0[st0.len() - 2]));
                        lemma_stack_push::<CF, EF>(&cb0, circuit, lv, st0.drop_last().drop_last(), ns0.drop_last().drop_last(), id, kn);
                        lemma_cache_insert::<CF, EF>(&cb0, circuit, lv, ca0, key, id);
                    }''', nth=1)
    cb.after('stack.push(id);', '''proof {
                        ns = ns0.push(*node);
                        lemma_stack_push::<CF, EF>(&cb0, circuit, lv, st0, ns0, id, *node);
                        lemma_cache_insert::<CF, EF>(&cb0, circuit, lv, ca0, key, id);
                    }''', nth=2)
    # ---- `continue;` sites in source order: cache hit, Neg, Add, Sub, Mul
    cb.before('continue;', '''proof { ns = ns0.push(*node); lemma_stack_push::<CF, EF>(&cb0, circuit, lv, st0, ns0, cached, *node); }''', nth=0)
    PUSH1 = '''proof { lemma_arm_neg::<CF>(t0, tasks@, ns0, key, *node); }'''
    cb.before('continue;', PUSH1, nth=1)
    for n_ in (2, 3, 4):
        cb.before('continue;', '''proof { lemma_arm_bin::<CF>(t0, tasks@, ns0, key, *node); }''', nth=n_)
    cb.bind_tail('res_', 'proof { assert(ns =~= seq![*expr]); }')
    u.emit(cb)
    wh_ = pull_work_helpers(u, [cb], 'SymbolicExpression<CF>', '')
    if wh_:
        u.text("}\nimpl<'a, CF: Copy> Work<'a, SymbolicExpression<CF>, NodeKey> {")
        for h_ in wh_:
            u.emit(h_)
    u.text('''}
/// pushing a value that denotes node n keeps the stacks aligned (values of older entries are preserved by `extends`)
pub proof fn lemma_stack_push<CF, F: Field>(a: &CircuitBuilder<F>, b: &CircuitBuilder<F>, lv: LeafVals<F>, st: Seq<ExprId>, ns: Seq<SymbolicExpression<CF>>, id: ExprId, n: SymbolicExpression<CF>)
    requires b.extends(a), stack_ok::<CF, F>(a, lv, st, ns), b.has(id), b.val(id) == den(lv, n)
    ensures stack_ok::<CF, F>(b, lv, st.push(id), ns.push(n))
{
    assert forall|i: int| 0 <= i < st.push(id).len() implies b.has(#[trigger] st.push(id)[i]) && b.val(st.push(id)[i]) == den(lv, ns.push(n)[i]) by {
        if i < st.len() { assert(a.has(st[i])); }
    }
}
pub proof fn lemma_cache_insert<CF, F: Field>(a: &CircuitBuilder<F>, b: &CircuitBuilder<F>, lv: LeafVals<F>, c: Map<NodeKey, ExprId>, k: NodeKey, id: ExprId)
    requires b.extends(a), cache_ok::<CF, F>(a, lv, c), b.has(id), b.val(id) == den(lv, key_node::<CF>(k))
    ensures cache_ok::<CF, F>(b, lv, c.insert(k, id))
{
    assert forall|kk: NodeKey| #[trigger] c.insert(k, id).dom().contains(kk) implies b.has(c.insert(k, id)[kk]) && b.val(c.insert(k, id)[kk]) == den(lv, key_node::<CF>(kk)) by {
        if kk != k { assert(c.dom().contains(kk)); assert(a.has(c[kk])); }
    }
}
/// Eval(Neg{x}) unfolds to BuildNeg(key) ; Eval(x)
pub proof fn lemma_arm_neg<CF>(t0: Seq<W<'_, CF>>, t2: Seq<W<'_, CF>>, ns: Seq<SymbolicExpression<CF>>, key: NodeKey, node: SymbolicExpression<CF>)
    requires key_node::<CF>(key) == node, node is Neg, t2.len() == t0.len() + 2, t2.drop_last().drop_last() =~= t0,
             t2[t2.len() - 2] == Work::<SymbolicExpression<CF>, NodeKey>::BuildNeg(key),
             t2[t2.len() - 1] matches Work::Eval(n) && *n == (match node { SE::Neg { x, .. } => *x, _ => arbitrary() }),
    ensures run_nodes(t2, ns) == run_nodes(t0, ns.push(node)), weight(t2) < weight(t0) + 2 * size(node) - 1
{
    let t1 = t2.drop_last();
    let x = match node { SE::Neg { x, .. } => *x, _ => arbitrary() };
    assert(t1.drop_last() =~= t0);
    assert(t2 =~= t1.push(t2.last())); assert(t1 =~= t0.push(t1.last()));
    lemma_run_push(t1, t2.last(), ns); lemma_run_push(t0, t1.last(), ns.push(x));
    lemma_weight_push(t1, t2.last()); lemma_weight_push(t0, t1.last());
    assert(ns.push(x).drop_last() =~= ns);
    assert(ns.push(x).last() == x);
    lemma_size_pos(x);
}
/// Eval(Op{x,y}) unfolds to BuildBinary(key, op) ; Eval(y) ; Eval(x)
pub proof fn lemma_arm_bin<CF>(t0: Seq<W<'_, CF>>, t3: Seq<W<'_, CF>>, ns: Seq<SymbolicExpression<CF>>, key: NodeKey, node: SymbolicExpression<CF>)
    requires key_node::<CF>(key) == node, t3.len() == t0.len() + 3, t3.drop_last().drop_last().drop_last() =~= t0,
             t3[t3.len() - 3] matches Work::BuildBinary(k, op) && k == key && binop_node(op, node).is_some(),
             ({ let (x, y) = binop_node((match t3[t3.len() - 3] { Work::BuildBinary(_, op) => op, _ => arbitrary() }), node).unwrap();
                (t3[t3.len() - 2] matches Work::Eval(n) && *n == y) && (t3[t3.len() - 1] matches Work::Eval(n) && *n == x) }),
    ensures run_nodes(t3, ns) == run_nodes(t0, ns.push(node)), weight(t3) < weight(t0) + 2 * size(node) - 1
{
    let op = match t3[t3.len() - 3] { Work::BuildBinary(_, op) => op, _ => arbitrary() };
    let (x, y) = binop_node(op, node).unwrap();
    let t2 = t3.drop_last(); let t1 = t2.drop_last();
    assert(t1.drop_last() =~= t0);
    assert(t3 =~= t2.push(t3.last())); assert(t2 =~= t1.push(t2.last())); assert(t1 =~= t0.push(t1.last()));
    lemma_run_push(t2, t3.last(), ns); lemma_run_push(t1, t2.last(), ns.push(x)); lemma_run_push(t0, t1.last(), ns.push(x).push(y));
    lemma_weight_push(t2, t3.last()); lemma_weight_push(t1, t2.last()); lemma_weight_push(t0, t1.last());
    let s2 = ns.push(x).push(y);
    assert(s2.drop_last().drop_last() =~= ns);
    assert(s2[s2.len() - 2] == x && s2[s2.len() - 1] == y);
    lemma_size_pos(x); lemma_size_pos(y);
}
}''')
    # ---------------------------------------------------------------- alpha folding of the translated constraints (recursion/src/traits/air.rs)
    ef = u.extract('recursion/src/traits/air.rs', r'RecursiveAir<F, EF, LG> for A', 'eval_folded_circuit', 'eval_folded_circuit[folding slice]')
    ef.drop_prefix_before('let compiler = SymbolicCompiler::new(sels.row_selectors, &columns);',
                          'prefix builds the AirLayout and calls p3 get_symbolic_constraints / get_constraint_layout (opaque); it binds base_symbolic_constraints / extension_symbolic_constraints / constraint_layout, which are parameters here')
    # a counter of the dropped prefix that the slice reads becomes one more parameter (an arbitrary usize: the contract holds for every value of it)
    extra_ = ''
    for nm_, ty_, init_ in ef.prefix_locals_used(known=('base_symbolic_constraints', 'extension_symbolic_constraints', 'constraint_layout', 'compiler')):
        if ty_ == 'usize' or init_.startswith('usize::from(') or init_.endswith('.len()'):
            extra_ += f', {nm_}: usize'
            ef.rewrites.append(('R13', f'prefix local `{nm_}` (a usize) read by the slice -> parameter of the slice, unconstrained', ''))
        else:
            raise ExtractError(f'eval_folded_circuit[folding slice] reads the prefix local `{nm_}` whose type the slice signature cannot state')
    ef.set_sig('R11', "fn eval_folded_circuit<CF: Copy, EF: Lift<CF>>(builder: &mut CircuitBuilder<EF>, sels: &RecursiveLagrangeSelectors, alpha: &Target, columns: ColumnsTargets<'_>, "
                      "base_symbolic_constraints: &Vec<SymbolicExpression<CF>>, extension_symbolic_constraints: &Vec<ExtExpr<CF>>, constraint_layout: &ConstraintLayout" + extra_ + ") -> Target", sliced=True)
    ef.rewrite_re('R11', r'builder\.define_const\(EF::ZERO\)', 'builder.define_const(EF::zero())', min_count=1)
    ef.rewrite_re('R7', r'let mut base_cache = HashMap::new\(\);', 'let mut base_cache: HashMap<NodeKey, ExprId> = HashMap::new();', min_count=1)
    ef.rewrite_re('R7', r'let mut ext_cache = HashMap::new\(\);', 'let mut ext_cache: HashMap<NodeKey, ExprId> = HashMap::new(); proof { lemma_xcache_empty(builder, lv_of(compiler, &c0)); }', min_count=1)
    ef.rewrite_re('R7', r'let mut (next_\w+) = 0;', r'let mut \1: usize = 0;', min_count=0)
    # R6: `V.get(I) == Some(&X)` -> `(I < V.len() && V[I] == X)`
    ef.rewrite_re('R6', r'([\w.]+)\.get\((\w+)\) == Some\(&(\w+)\)', r'(\2 < \1.len() && \1[\2] == \3)', min_count=0)
    ef.rewrite_re('R6', r'(\w+) \+= 1;', r'\1 = \1 + 1;', min_count=0)
    ef.rewrite_re('R5', r'for (\w+) in &(base_symbolic_constraints|extension_symbolic_constraints) \{', r'for i_\2 in 0..\2.len() { let \1 = &\2[i_\2];', min_count=0)
    ef.rewrite('R8', 'builder.pop_scope();', '')
    SC = 'SymbolicCompiler { row_selectors: sels.row_selectors, columns: &columns }'
    ef.requires('leaves_allocated', f'old(builder).has(*alpha) && leaves_ok(old(builder), lv_of({SC}, old(builder)), {SC})')
    ef.requires('variables_in_range', f'(forall|i: int| 0 <= i < base_symbolic_constraints@.len() ==> vars_in_range({SC}, #[trigger] base_symbolic_constraints@[i]))'
                                      f' && (forall|i: int| 0 <= i < extension_symbolic_constraints@.len() ==> xvars_in_range({SC}, #[trigger] extension_symbolic_constraints@[i]))')
    ef.requires('layout_is_the_emission_order_of_the_two_streams', 'layout_wf(constraint_layout, base_symbolic_constraints@.len() as int, extension_symbolic_constraints@.len() as int)')
    ef.requires('constraint_count_fits', 'base_symbolic_constraints@.len() + extension_symbolic_constraints@.len() < usize::MAX')
    ef.ensures('native_folder_accumulation_in_emission_order', f'''({{ let c0 = old(builder); let sc = {SC}; let lv = lv_of(sc, c0);
            final(builder).extends_pure(c0) && final(builder).has(ret)
            && exists|g: Seq<EF>| #[trigger] emission_order(g, constraint_layout, base_vals(lv, base_symbolic_constraints@), ext_vals(lv, extension_symbolic_constraints@))
                    && final(builder).val(ret) == fold_alpha(c0.val(*alpha), g) }})''')
    ef.after('let compiler = SymbolicCompiler::new(sels.row_selectors, &columns);',
             'let ghost c0 = *builder; let ghost lv = lv_of(compiler, &c0); let ghost a0 = builder.val(*alpha); let ghost mut gb: Seq<EF> = Seq::empty();'
             ' let ghost bix = constraint_layout.base_indices@; let ghost xix = constraint_layout.ext_indices@;'
             ' let ghost bv = base_vals(lv, base_symbolic_constraints@); let ghost ev = ext_vals(lv, extension_symbolic_constraints@);')
    LOOP = 'for idx in 0..num_constraints'
    if LOOP in ef.body and 'next_base' in ef.body and 'next_ext' in ef.body:
        lo = ef._loop_open(LOOP)
        ef.body = ef.body[:lo + 1] + (' let ghost nb0 = next_base; let ghost ne0 = next_ext; let ghost gb0 = gb; let ghost cb1 = *builder; let ghost mut cb2 = *builder;'
                                      ' proof { lemma_lv_same(&c0, builder, compiler); lemma_else_is_the_next_extension_constraint(constraint_layout, bv.len() as int, ev.len() as int, idx as int, nb0 as int, ne0 as int); }') + ef.body[lo + 1:]
        ef.at_loop_end(LOOP, '''proof {
                if next_base == nb0 + 1 { lemma_xcache_extends(&cb1, &cb2, lv, ext_cache@); }
                lemma_cache_extends::<CF, EF>(&cb2, builder, lv, base_cache@); lemma_xcache_extends(&cb2, builder, lv, ext_cache@);
                gb = gb0.push(builder.val(acc_c_));
                assert(gb.drop_last() =~= gb0);
                if next_base == nb0 + 1 {
                    assert(bix[nb0 as int] == idx);
                    assert(builder.val(acc_c_) == bv[nb0 as int]); // @@A:base_branch_compiles_the_next_base_constraint
                } else {
                    assert(xix[ne0 as int] == idx);
                    assert(builder.val(acc_c_) == ev[ne0 as int]); // @@A:else_branch_compiles_the_next_extension_constraint
                }
                assert forall|j: int| 0 <= j < next_base implies gb[#[trigger] bix[j] as int] == bv[j] by { if j < nb0 { assert(gb0[bix[j] as int] == bv[j]); } }
                assert forall|j: int| 0 <= j < next_ext implies gb[#[trigger] xix[j] as int] == ev[j] by { if j < ne0 { assert(gb0[xix[j] as int] == ev[j]); } }
            }''')
        # name the folded term (the value pushed on the ghost sequence): `acc = builder.mul_add(acc, *alpha, X);` inside the loop
        m_ = re.search(r'acc = builder\.mul_add\(acc, \*alpha, (\w+)\);', ef.body)
        if m_:
            ef.body = ef.body.replace('acc_c_', m_.group(1))
            ef.body = ef.body.replace(m_.group(0), 'proof { cb2 = *builder; } ' + m_.group(0), 1)
        ef.loop(LOOP, invariants=[
            ('frame', 'builder.extends_pure(&c0) && builder.has(acc) && c0.has(*alpha) && a0 == c0.val(*alpha) && lv == lv_of(compiler, &c0) && leaves_ok(&c0, lv, compiler) && compiler.row_selectors == sels.row_selectors && *compiler.columns == columns'
                      ' && bix == constraint_layout.base_indices@ && xix == constraint_layout.ext_indices@ && bv == base_vals(lv, base_symbolic_constraints@) && ev == ext_vals(lv, extension_symbolic_constraints@)'
                      ' && num_constraints == bv.len() + ev.len() && layout_wf(constraint_layout, bv.len() as int, ev.len() as int)'),
            ('pre', '(forall|i: int| 0 <= i < base_symbolic_constraints@.len() ==> vars_in_range(compiler, #[trigger] base_symbolic_constraints@[i]))'
                    ' && (forall|i: int| 0 <= i < extension_symbolic_constraints@.len() ==> xvars_in_range(compiler, #[trigger] extension_symbolic_constraints@[i]))'),
            ('caches', 'cache_ok::<CF, EF>(builder, lv, base_cache@) && xcache_ok::<EF>(builder, lv, ext_cache@)'),
            ('cursors_count_the_constraints_emitted_before_idx', 'cursors_ok(constraint_layout, bv.len() as int, ev.len() as int, idx as int, next_base as int, next_ext as int)'),
            ('folded_terms_so_far_are_in_emission_order', 'gb.len() == idx && (forall|j: int| 0 <= j < next_base ==> gb[#[trigger] bix[j] as int] == bv[j]) && (forall|j: int| 0 <= j < next_ext ==> gb[#[trigger] xix[j] as int] == ev[j])'),
            ('acc', 'builder.val(acc) == fold_alpha(a0, gb)'),
        ])
    ef.bind_tail('res_', 'proof { assert(emission_order(gb, constraint_layout, bv, ev)); }')
    u.text('''verus! {
pub struct RecursiveLagrangeSelectors { pub row_selectors: RowSelectorsTargets, pub inv_vanishing: Target }
pub struct ExtExpr<CF> { pub _p: core::marker::PhantomData<CF> }                                                         // SymbolicExpressionExt: opaque here
impl<CF> ExtExpr<CF> { #[verifier::external_body] pub fn degree_multiple(&self) -> (r: usize) { unimplemented!() } }
pub uninterp spec fn den_ext<CF, F: Field>(lv: LeafVals<F>, e: ExtExpr<CF>) -> F;
/// native constraint folder:  acc = acc * alpha + c   over the constraints in the order the AIR emits them (base and extension alike)
pub open spec fn fold_alpha<F: Field>(alpha: F, cs: Seq<F>) -> F decreases cs.len() {
    if cs.len() == 0 { F::fzero() } else { fold_alpha(alpha, cs.drop_last()).fmul(alpha).fadd(cs.last()) }
}
pub open spec fn base_vals<CF, F: Field>(lv: LeafVals<F>, cs: Seq<SymbolicExpression<CF>>) -> Seq<F> { Seq::new(cs.len(), |i: int| den(lv, cs[i])) }
pub open spec fn ext_vals<CF, F: Field>(lv: LeafVals<F>, cs: Seq<ExtExpr<CF>>) -> Seq<F> { Seq::new(cs.len(), |i: int| den_ext(lv, cs[i])) }
/// p3_air::symbolic::ConstraintLayout: global indices of the base / extension constraints, each in emission order
pub struct ConstraintLayout { pub base_indices: Vec<usize>, pub ext_indices: Vec<usize> }
/// ASSUMED of the dependency (p3 `constraint_layout()`): the two index lists are increasing, disjoint, and together are exactly 0..nb+ne
pub open spec fn layout_wf(l: &ConstraintLayout, nb: int, ne: int) -> bool {
    let b = l.base_indices@; let x = l.ext_indices@;
    b.len() == nb && x.len() == ne
    && (forall|i: int, j: int| 0 <= i < j < nb ==> b[i] < b[j]) && (forall|i: int, j: int| 0 <= i < j < ne ==> x[i] < x[j])
    && (forall|i: int, j: int| 0 <= i < nb && 0 <= j < ne ==> b[i] != x[j])
    && (forall|i: int| 0 <= i < nb ==> #[trigger] b[i] < nb + ne) && (forall|j: int| 0 <= j < ne ==> #[trigger] x[j] < nb + ne)
    && (forall|g: int| 0 <= g < nb + ne ==> #[trigger] covered(l, nb, ne, g))
}
pub open spec fn covered(l: &ConstraintLayout, nb: int, ne: int, g: int) -> bool {
    (exists|i: int| 0 <= i < nb && #[trigger] l.base_indices@[i] == g) || (exists|j: int| 0 <= j < ne && #[trigger] l.ext_indices@[j] == g)
}
/// g is THE global constraint sequence of the native folder: the j-th base constraint sits at its global index, and so does the j-th extension constraint
pub open spec fn emission_order<F: Field>(g: Seq<F>, l: &ConstraintLayout, bv: Seq<F>, ev: Seq<F>) -> bool {
    g.len() == bv.len() + ev.len()
    && (forall|j: int| 0 <= j < bv.len() ==> g[#[trigger] l.base_indices@[j] as int] == bv[j])
    && (forall|j: int| 0 <= j < ev.len() ==> g[#[trigger] l.ext_indices@[j] as int] == ev[j])
}
/// cursor state before global index idx: nbx base and nex extension constraints were emitted earlier
pub open spec fn cursors_ok(l: &ConstraintLayout, nb: int, ne: int, idx: int, nbx: int, nex: int) -> bool {
    let b = l.base_indices@; let x = l.ext_indices@;
    0 <= nbx <= nb && 0 <= nex <= ne && nbx + nex == idx
    && (forall|j: int| 0 <= j < nbx ==> #[trigger] b[j] < idx) && (nbx < nb ==> b[nbx] >= idx)
    && (forall|j: int| 0 <= j < nex ==> #[trigger] x[j] < idx) && (nex < ne ==> x[nex] >= idx)
}
/// the global sequence is unique (so `exists g` in the postcondition names the native folder's sequence)
pub proof fn lemma_emission_order_unique<F: Field>(g1: Seq<F>, g2: Seq<F>, l: &ConstraintLayout, bv: Seq<F>, ev: Seq<F>)
    requires layout_wf(l, bv.len() as int, ev.len() as int), emission_order(g1, l, bv, ev), emission_order(g2, l, bv, ev)
    ensures g1 == g2
{
    assert forall|g: int| 0 <= g < g1.len() implies g1[g] == g2[g] by {
        assert(covered(l, bv.len() as int, ev.len() as int, g));
        if exists|i: int| 0 <= i < bv.len() && #[trigger] l.base_indices@[i] == g {
            let i = choose|i: int| 0 <= i < bv.len() && #[trigger] l.base_indices@[i] == g; assert(g1[l.base_indices@[i] as int] == bv[i]); assert(g2[l.base_indices@[i] as int] == bv[i]);
        } else {
            let j = choose|j: int| 0 <= j < ev.len() && #[trigger] l.ext_indices@[j] == g; assert(g1[l.ext_indices@[j] as int] == ev[j]); assert(g2[l.ext_indices@[j] as int] == ev[j]);
        }
    }
    assert(g1 =~= g2);
}
/// at global index idx: either the next base constraint sits there, or the next extension constraint does; and the cursors advance accordingly
pub proof fn lemma_else_is_the_next_extension_constraint(l: &ConstraintLayout, nb: int, ne: int, idx: int, nbx: int, nex: int)
    requires layout_wf(l, nb, ne), cursors_ok(l, nb, ne, idx, nbx, nex), 0 <= idx < nb + ne
    ensures
        (nbx < nb && l.base_indices@[nbx] == idx) ==> cursors_ok(l, nb, ne, idx + 1, nbx + 1, nex),
        !(nbx < nb && l.base_indices@[nbx] == idx) ==> nex < ne && l.ext_indices@[nex] == idx && cursors_ok(l, nb, ne, idx + 1, nbx, nex + 1),
{
    let b = l.base_indices@; let x = l.ext_indices@;
    if nbx < nb && b[nbx] == idx {
        if nbx + 1 < nb { assert(b[nbx] < b[nbx + 1]); }
        if nex < ne { assert(b[nbx] != x[nex]); }
        assert forall|j: int| 0 <= j < nbx + 1 implies #[trigger] b[j] < idx + 1 by { if j < nbx { assert(b[j] < idx); } }
    } else {
        assert(covered(l, nb, ne, idx));
        if exists|i: int| 0 <= i < nb && #[trigger] b[i] == idx {
            let i = choose|i: int| 0 <= i < nb && #[trigger] b[i] == idx;
            if i < nbx { assert(b[i] < idx); } else if i > nbx { assert(b[nbx] < b[i]); }
            assert(false);
        }
        let j = choose|j: int| 0 <= j < ne && #[trigger] x[j] == idx;
        if j < nex { assert(x[j] < idx); } else if j > nex { assert(x[nex] < x[j]); }
        assert(j == nex);
        if nex + 1 < ne { assert(x[nex] < x[nex + 1]); }
        if nbx < nb { assert(b[nbx] != x[nex]); }
        assert forall|k: int| 0 <= k < nex + 1 implies #[trigger] x[k] < idx + 1 by { if k < nex { assert(x[k] < idx); } }
    }
}
/// extension-side cache and variable-range predicates: opaque here, proved for the real compile_ext in unit symx (caches_sound / caches_stay_sound)
pub uninterp spec fn xcache_ok<F: Field>(cb: &CircuitBuilder<F>, lv: LeafVals<F>, cache: Map<NodeKey, ExprId>) -> bool;
pub uninterp spec fn xvars_in_range<CF>(sc: SymbolicCompiler<'_>, e: ExtExpr<CF>) -> bool;
#[verifier::external_body] pub proof fn lemma_xcache_empty<F: Field>(cb: &CircuitBuilder<F>, lv: LeafVals<F>) ensures xcache_ok::<F>(cb, lv, Map::empty()) { }
#[verifier::external_body] pub proof fn lemma_xcache_extends<F: Field>(a: &CircuitBuilder<F>, b: &CircuitBuilder<F>, lv: LeafVals<F>, c: Map<NodeKey, ExprId>) requires b.extends(a), xcache_ok::<F>(a, lv, c) ensures xcache_ok::<F>(b, lv, c) { }
pub proof fn lemma_cache_extends<CF, F: Field>(a: &CircuitBuilder<F>, b: &CircuitBuilder<F>, lv: LeafVals<F>, c: Map<NodeKey, ExprId>) requires b.extends(a), cache_ok::<CF, F>(a, lv, c) ensures cache_ok::<CF, F>(b, lv, c) { }
pub proof fn lemma_leaves_extend<F: Field>(a: &CircuitBuilder<F>, b: &CircuitBuilder<F>, sc: SymbolicCompiler<'_>)
    requires b.extends(a), leaves_ok(a, lv_of(sc, a), sc)
    ensures leaves_ok(b, lv_of(sc, b), sc), lv_of(sc, b).first == lv_of(sc, a).first, lv_of(sc, b).last == lv_of(sc, a).last, lv_of(sc, b).trans == lv_of(sc, a).trans
{
    assert forall|e: BaseEntry, i: int| 0 <= i < base_slice(*sc.columns, e).len() implies b.has(#[trigger] base_slice(*sc.columns, e)[i]) by { assert(a.has(base_slice(*sc.columns, e)[i])); }
}
/// the leaf values do not change when the builder grows (all leaf targets were allocated before)
pub proof fn lemma_lv_same<F: Field>(a: &CircuitBuilder<F>, b: &CircuitBuilder<F>, sc: SymbolicCompiler<'_>)
    requires b.extends(a), leaves_ok(a, lv_of(sc, a), sc)
    ensures lv_of(sc, b) == lv_of(sc, a), leaves_ok(b, lv_of(sc, b), sc)
{
    lemma_leaves_extend(a, b, sc);
    assert forall|e: BaseEntry, i: usize| #[trigger] (lv_of(sc, b).var)(e, i) == (lv_of(sc, a).var)(e, i) by {
        if (i as int) < base_slice(*sc.columns, e).len() { assert(a.has(base_slice(*sc.columns, e)[i as int])); }
    }
    assert(lv_of(sc, b).var =~= lv_of(sc, a).var);
}
impl<'a> SymbolicCompiler<'a> {
    pub fn new(row_selectors: RowSelectorsTargets, columns: &'a ColumnsTargets<'a>) -> (r: Self) ensures r.row_selectors == row_selectors, r.columns == columns { SymbolicCompiler { row_selectors, columns } }
    /// ASSUMED callee contract (same shape as the one proved for compile_base)
    #[verifier::external_body]
    pub fn compile_ext<CF, EF: Field>(&self, expr: &ExtExpr<CF>, circuit: &mut CircuitBuilder<EF>, base_cache: &mut HashMap<NodeKey, ExprId>, cache: &mut HashMap<NodeKey, ExprId>) -> (r: ExprId)
        requires xvars_in_range(*self, *expr), xcache_ok::<EF>(old(circuit), lv_of(*self, old(circuit)), old(cache)@), cache_ok::<CF, EF>(old(circuit), lv_of(*self, old(circuit)), old(base_cache)@)
        ensures final(circuit).extends_pure(old(circuit)), final(circuit).has(r), final(circuit).val(r) == den_ext(lv_of(*self, old(circuit)), *expr),
                xcache_ok::<EF>(final(circuit), lv_of(*self, old(circuit)), final(cache)@), cache_ok::<CF, EF>(final(circuit), lv_of(*self, old(circuit)), final(base_cache)@)
    { unimplemented!() }
}''')
    u.emit(ef)
    u.text('}')
    return u
