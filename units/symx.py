"""Unit `symx` (C13, extension half): SymbolicCompiler::compile_ext evaluates an extension-field constraint like the native folder.
Real text: circuit/src/symbolic/compiler.rs SymbolicCompiler::compile_ext (work-stack walk, two shared caches).
Same refinement argument as compile_base in unit `sym` (pending work stack run symbolically on a stack of nodes); base sub-expressions
are delegated to compile_base, whose contract (proved in unit sym) is the callee contract here."""
import os
import re

from vf.unit import Unit
from units.sym import types_from_repo

HERE = os.path.dirname(os.path.abspath(__file__))

SPEC = r'''
use std::collections::{HashMap, HashSet, BTreeMap, BTreeSet, VecDeque};
verus! {
global size_of usize == 8;
#[derive(Clone, Copy, PartialEq, Eq, Structural)]
pub enum BaseEntry { Preprocessed { offset: usize }, Main { offset: usize }, Periodic, Public }
#[derive(Clone, Copy, PartialEq, Eq, Structural)]
pub enum ExtEntry { Permutation { offset: usize }, Challenge, PermutationValue }
/// a base-field symbolic expression: opaque here (unit sym)
pub struct BaseExpr { pub _p: () }
pub struct SymbolicVariableExt { pub entry: ExtEntry, pub index: usize }
pub enum ExtLeaf<EF> { Base(BaseExpr), ExtVariable(SymbolicVariableExt), ExtConstant(EF) }
pub enum SymbolicExpressionExt<EF> {
    Leaf(ExtLeaf<EF>),
    Add { x: Box<SymbolicExpressionExt<EF>>, y: Box<SymbolicExpressionExt<EF>>, degree_multiple: usize },
    Sub { x: Box<SymbolicExpressionExt<EF>>, y: Box<SymbolicExpressionExt<EF>>, degree_multiple: usize },
    Neg { x: Box<SymbolicExpressionExt<EF>>, degree_multiple: usize },
    Mul { x: Box<SymbolicExpressionExt<EF>>, y: Box<SymbolicExpressionExt<EF>>, degree_multiple: usize },
}
pub use SymbolicExpressionExt as XE;

// ---------------------------------------------------------------- types cut from /repo
@@TYPES@@

/// `node as *const _`: the cache key.  ASSUMPTION: a key identifies one node (pointer identity) for the lifetime of the cache.
#[derive(Clone, Copy, PartialEq, Eq, Hash, Structural)]
pub struct NodeKey(pub u64);
pub uninterp spec fn key_node<EF>(k: NodeKey) -> SymbolicExpressionExt<EF>;
#[verifier::external_body]
pub fn node_key<EF>(node: &SymbolicExpressionExt<EF>) -> (k: NodeKey) ensures key_node::<EF>(k) == *node { unimplemented!() }
pub mod ax {
    use super::*;
    pub broadcast axiom fn node_key_model() ensures #[trigger] vstd::std_specs::hash::obeys_key_model::<NodeKey>();
}

// ---------------------------------------------------------------- NATIVE evaluation
/// leaf values the native folder reads: base part (unit sym) + extension variables (permutation columns, challenges)
pub struct LeafVals<F> { pub base: int, pub xvar: spec_fn(ExtEntry, usize) -> F }
pub uninterp spec fn den_b<F: Field>(lv: LeafVals<F>, e: BaseExpr) -> F;       // native evaluation of a base expression (unit sym: `den`)
pub open spec fn den<F: Field>(lv: LeafVals<F>, e: SymbolicExpressionExt<F>) -> F decreases e {
    match e {
        XE::Leaf(ExtLeaf::Base(b)) => den_b(lv, b),
        XE::Leaf(ExtLeaf::ExtVariable(v)) => (lv.xvar)(v.entry, v.index),
        XE::Leaf(ExtLeaf::ExtConstant(c)) => c,
        XE::Add { x, y, .. } => den(lv, *x).fadd(den(lv, *y)),
        XE::Sub { x, y, .. } => den(lv, *x).fsub(den(lv, *y)),
        XE::Neg { x, .. } => F::fzero().fsub(den(lv, *x)),
        XE::Mul { x, y, .. } => den(lv, *x).fmul(den(lv, *y)),
    }
}
impl<EF: Field> SymbolicExpressionExt<EF> {
    /// p3-air SymbolicExpressionExt::to_base: lowers a tree without extension-only leaves to a NEW base expression (an owned temporary) with the same value
    #[verifier::external_body]
    pub fn to_base(&self) -> (r: Option<BaseExpr>) ensures r matches Some(b) ==> forall|lv: LeafVals<EF>| #[trigger] den_b(lv, b) == den(lv, *self) { unimplemented!() }
}
pub open spec fn size<EF>(e: SymbolicExpressionExt<EF>) -> nat decreases e {
    match e {
        XE::Leaf(_) => 1,
        XE::Neg { x, .. } => 1 + size(*x),
        XE::Add { x, y, .. } => 1 + size(*x) + size(*y),
        XE::Sub { x, y, .. } => 1 + size(*x) + size(*y),
        XE::Mul { x, y, .. } => 1 + size(*x) + size(*y),
    }
}
pub proof fn lemma_size_pos<EF>(e: SymbolicExpressionExt<EF>) ensures size(e) >= 1 decreases e {
    match e { XE::Leaf(_) => {} XE::Neg { x, .. } => { lemma_size_pos(*x); } XE::Add { x, y, .. } => { lemma_size_pos(*x); lemma_size_pos(*y); }
              XE::Sub { x, y, .. } => { lemma_size_pos(*x); lemma_size_pos(*y); } XE::Mul { x, y, .. } => { lemma_size_pos(*x); lemma_size_pos(*y); } }
}

// ---------------------------------------------------------------- the work stack, symbolically
pub type W<'a, EF> = Work<'a, SymbolicExpressionExt<EF>, NodeKey>;
pub open spec fn binop_node<EF>(op: BinOp, n: SymbolicExpressionExt<EF>) -> Option<(SymbolicExpressionExt<EF>, SymbolicExpressionExt<EF>)> {
    match (op, n) {
        (BinOp::Add, XE::Add { x, y, .. }) => Some((*x, *y)),
        (BinOp::Sub, XE::Sub { x, y, .. }) => Some((*x, *y)),
        (BinOp::Mul, XE::Mul { x, y, .. }) => Some((*x, *y)),
        _ => None,
    }
}
pub open spec fn run_nodes<EF>(tasks: Seq<W<'_, EF>>, ns: Seq<SymbolicExpressionExt<EF>>) -> Option<Seq<SymbolicExpressionExt<EF>>> decreases tasks.len() {
    if tasks.len() == 0 { Some(ns) } else {
        let rest = tasks.drop_last();
        match tasks.last() {
            Work::Eval(n) => run_nodes(rest, ns.push(*n)),
            Work::BuildNeg(k) => if ns.len() >= 1 && (key_node::<EF>(k) matches XE::Neg { x, .. } && *x == ns.last()) { run_nodes(rest, ns.drop_last().push(key_node::<EF>(k))) } else { None },
            Work::BuildBinary(k, op) => if ns.len() >= 2 && binop_node(op, key_node::<EF>(k)) == Some((ns[ns.len() - 2], ns[ns.len() - 1])) {
                    run_nodes(rest, ns.drop_last().drop_last().push(key_node::<EF>(k))) } else { None },
        }
    }
}
pub open spec fn weight<EF>(tasks: Seq<W<'_, EF>>) -> nat decreases tasks.len() {
    if tasks.len() == 0 { 0 } else { weight(tasks.drop_last()) + (match tasks.last() { Work::Eval(n) => (2 * size(*n) - 1) as nat, _ => 1 }) }
}
pub proof fn lemma_weight_push<EF>(tasks: Seq<W<'_, EF>>, t: W<'_, EF>)
    ensures weight(tasks.push(t)) == weight(tasks) + (match t { Work::Eval(n) => (2 * size(*n) - 1) as nat, _ => 1 })
{ assert(tasks.push(t).drop_last() =~= tasks); }
pub proof fn lemma_run_push<EF>(tasks: Seq<W<'_, EF>>, t: W<'_, EF>, ns: Seq<SymbolicExpressionExt<EF>>)
    ensures run_nodes(tasks.push(t), ns) == (match t {
        Work::Eval(n) => run_nodes(tasks, ns.push(*n)),
        Work::BuildNeg(k) => if ns.len() >= 1 && (key_node::<EF>(k) matches XE::Neg { x, .. } && *x == ns.last()) { run_nodes(tasks, ns.drop_last().push(key_node::<EF>(k))) } else { None },
        Work::BuildBinary(k, op) => if ns.len() >= 2 && binop_node(op, key_node::<EF>(k)) == Some((ns[ns.len() - 2], ns[ns.len() - 1])) {
                run_nodes(tasks, ns.drop_last().drop_last().push(key_node::<EF>(k))) } else { None },
    })
{ assert(tasks.push(t).drop_last() =~= tasks); }

pub open spec fn stack_ok<F: Field>(cb: &CircuitBuilder<F>, lv: LeafVals<F>, stack: Seq<ExprId>, ns: Seq<SymbolicExpressionExt<F>>) -> bool {
    stack.len() == ns.len() && forall|i: int| 0 <= i < stack.len() ==> cb.has(#[trigger] stack[i]) && cb.val(stack[i]) == den(lv, ns[i])
}
pub open spec fn cache_ok<F: Field>(cb: &CircuitBuilder<F>, lv: LeafVals<F>, cache: Map<NodeKey, ExprId>) -> bool {
    forall|k: NodeKey| #[trigger] cache.dom().contains(k) ==> cb.has(cache[k]) && cb.val(cache[k]) == den(lv, key_node::<F>(k))
}
/// soundness of the BASE cache (unit sym: cache_ok over base nodes); only its preservation matters here
pub uninterp spec fn bcache_ok<F: Field>(cb: &CircuitBuilder<F>, lv: LeafVals<F>, cache: Map<NodeKey, ExprId>) -> bool;
/// ASSUMED (lemma_cache_insert / extends reasoning of unit sym): a sound base cache stays sound when the builder grows
#[verifier::external_body]
pub proof fn ax_bcache_extends<F: Field>(a: &CircuitBuilder<F>, b: &CircuitBuilder<F>, lv: LeafVals<F>, c: Map<NodeKey, ExprId>)
    requires b.extends(a), bcache_ok(a, lv, c) ensures bcache_ok(b, lv, c) {}
} // verus!
'''


def build():
    u = Unit('symx', ['C13'])
    u.rlimit = 200
    u.assume('p3-air SymbolicExpressionExt / ExtLeaf / ExtEntry mirrored in the prelude (Arc children as Box); base sub-expressions are opaque with native value den_b (unit sym proves compile_base against it)')
    u.assume('address-keyed caches: compile_ext is specified for an expression whose base sub-expressions outlive the caches (precondition; the constraint trees borrowed from the symbolic AIR builder do) -- compile_base requires it of its argument, so a temporary tree passed to it is a failed obligation')
    u.assume('compile_base callee contract as proved in unit sym (value = native evaluation, base cache stays sound); resolve_ext_var as proved in unit sym; cache key abstraction NodeKey; builder arithmetic contracts')
    u.text(open(os.path.join(HERE, 'gadget_prelude.rs')).read())
    u.text(SPEC.replace('@@TYPES@@', types_from_repo()))
    # pure helpers a change may add to the operation kind (e.g. a peephole on the operand): reasoned about by their bodies
    from vf.unit import pull_pure_type_helpers
    u.text(pull_pure_type_helpers(u, 'circuit/src/symbolic/dag.rs', 'BinOp', (), rewrites=[(r'\bSymbolicExpr<', 'SymbolicExpressionExt<'), (r'\bSymbolicExpr::', 'SymbolicExpressionExt::')]))
    u.text('verus! { broadcast use {ax::node_key_model, vstd::std_specs::hash::group_hash_axioms}; }')
    C = 'circuit/src/symbolic/compiler.rs'
    cb = u.extract(C, r"impl<'a> SymbolicCompiler<'a>", 'compile_ext', 'SymbolicCompiler::compile_ext')
    cb.set_sig('R11', "fn compile_ext<EF: FieldX>(&self, expr: &SymbolicExpressionExt<EF>, circuit: &mut CircuitBuilder<EF>, base_cache: &mut HashMap<NodeKey, ExprId>, ext_cache: &mut HashMap<NodeKey, ExprId>) -> ExprId")
    cb.rewrite('R11', 'let key = node as *const _;', 'let key = node_key(node);')
    cb.rewrite('R4', 'while let Some(work) = tasks.pop() { match work {', 'loop { match tasks.pop() { None => { break; } Some(work) => { match work {')
    cb.rewrite('R1', 'if let Some(&cached) = ext_cache.get(&key) { stack.push(cached); continue; }', 'if let Some(cached_) = ext_cache.get(&key) { let cached = *cached_; stack.push(cached); continue; }')
    cb.rewrite_re('R9', r'stack\.pop\(\)\.expect\("[^"]*"\)', 'stack.pop().unwrap()', min_count=4)
    cb.rewrite('R11', 'circuit.define_const(EF::ZERO)', 'circuit.define_const(EF::zero())')
    cb.rewrite('R4', 'ext_cache.insert(key, id); stack.push(id); } } } stack.pop().unwrap()', 'ext_cache.insert(key, id); stack.push(id); } } } } } stack.pop().unwrap()')
    cb.requires('leaves_allocated', 'xleaves_ok(old(circuit), *self)')
    cb.requires('variables_in_range_and_base_subexpressions_outlive_the_address_keyed_cache', 'vars_in_range(*self, *expr)')
    cb.requires('caches_sound', 'cache_ok::<EF>(old(circuit), lv_of(*self, old(circuit)), old(ext_cache)@) && bcache_ok::<EF>(old(circuit), lv_of(*self, old(circuit)), old(base_cache)@)')
    cb.ensures('frame', 'final(circuit).extends_pure(old(circuit)) && final(circuit).has(ret)')
    cb.ensures('value_is_native_evaluation', 'final(circuit).val(ret) == den(lv_of(*self, old(circuit)), *expr)')
    cb.ensures('caches_stay_sound', 'cache_ok::<EF>(final(circuit), lv_of(*self, old(circuit)), final(ext_cache)@) && bcache_ok::<EF>(final(circuit), lv_of(*self, old(circuit)), final(base_cache)@)')
    u.text('''verus! {
pub open spec fn ext_slice(c: ColumnsTargets<'_>, e: ExtEntry) -> Seq<ExprId> {
    match e {
        ExtEntry::Permutation { offset } => if offset == 0 { c.permutation_local_values@ } else { c.permutation_next_values@ },
        ExtEntry::Challenge => c.challenges@,
        ExtEntry::PermutationValue => c.permutation_values@,
    }
}
pub uninterp spec fn base_id(sc: SymbolicCompiler<'_>) -> int;
/// leaf values = what the compiler's leaf lookups denote in the builder
pub open spec fn lv_of<F: Field>(sc: SymbolicCompiler<'_>, cb: &CircuitBuilder<F>) -> LeafVals<F> {
    LeafVals { base: base_id(sc), xvar: |e: ExtEntry, i: usize| if (i as int) < ext_slice(*sc.columns, e).len() { cb.val(ext_slice(*sc.columns, e)[i as int]) } else { F::fzero() } }
}
pub open spec fn xleaves_ok<F: Field>(cb: &CircuitBuilder<F>, sc: SymbolicCompiler<'_>) -> bool {
    forall|e: ExtEntry, i: int| 0 <= i < ext_slice(*sc.columns, e).len() ==> cb.has(#[trigger] ext_slice(*sc.columns, e)[i])
}
/// the pointer-keyed base cache is only sound for nodes that stay alive (at a fixed address) as long as the cache is used: an expression borrowed
/// from the AIR's constraint trees does, a temporary built inside the compiler does not.  Uninterpreted: nothing but the caller's precondition provides it.
pub uninterp spec fn outlives_cache(b: BaseExpr) -> bool;
pub open spec fn vars_in_range<EF>(sc: SymbolicCompiler<'_>, e: SymbolicExpressionExt<EF>) -> bool decreases e {
    match e {
        XE::Leaf(ExtLeaf::ExtVariable(v)) => v.index < ext_slice(*sc.columns, v.entry).len() && (v.entry matches ExtEntry::Permutation { offset } ==> offset <= 1),
        XE::Leaf(ExtLeaf::Base(b)) => outlives_cache(b),
        XE::Leaf(_) => true,
        XE::Neg { x, .. } => vars_in_range(sc, *x),
        XE::Add { x, y, .. } => vars_in_range(sc, *x) && vars_in_range(sc, *y),
        XE::Sub { x, y, .. } => vars_in_range(sc, *x) && vars_in_range(sc, *y),
        XE::Mul { x, y, .. } => vars_in_range(sc, *x) && vars_in_range(sc, *y),
    }
}
pub open spec fn tasks_in_range<EF>(sc: SymbolicCompiler<'_>, tasks: Seq<W<'_, EF>>) -> bool {
    forall|i: int| 0 <= i < tasks.len() ==> (#[trigger] tasks[i] matches Work::Eval(n) ==> vars_in_range(sc, *n))
}
pub proof fn lemma_lv_same<F: Field>(a: &CircuitBuilder<F>, b: &CircuitBuilder<F>, sc: SymbolicCompiler<'_>)
    requires b.extends(a), xleaves_ok(a, sc)
    ensures lv_of(sc, b) == lv_of(sc, a), xleaves_ok(b, sc)
{
    assert forall|e: ExtEntry, i: int| 0 <= i < ext_slice(*sc.columns, e).len() implies b.has(#[trigger] ext_slice(*sc.columns, e)[i]) by { assert(a.has(ext_slice(*sc.columns, e)[i])); }
    assert forall|e: ExtEntry, i: usize| #[trigger] (lv_of(sc, b).xvar)(e, i) == (lv_of(sc, a).xvar)(e, i) by {
        if (i as int) < ext_slice(*sc.columns, e).len() { assert(a.has(ext_slice(*sc.columns, e)[i as int])); }
    }
    assert(lv_of(sc, b).xvar =~= lv_of(sc, a).xvar);
}
impl ColumnsTargets<'_> {
    /// proved in unit sym
    #[verifier::external_body]
    pub fn resolve_ext_var(&self, entry: &ExtEntry, index: usize) -> (r: ExprId)
        requires (*entry matches ExtEntry::Permutation { offset } ==> offset <= 1), index < ext_slice(*self, *entry).len()
        ensures r == ext_slice(*self, *entry)[index as int]
    { unimplemented!() }
}
impl<'a> SymbolicCompiler<'a> {
    /// proved in unit sym (there: value = den of the base expression; base cache stays sound)
    #[verifier::external_body]
    pub fn compile_base<EF: FieldX>(&self, expr: &BaseExpr, circuit: &mut CircuitBuilder<EF>, cache: &mut HashMap<NodeKey, ExprId>) -> (r: ExprId)
        requires bcache_ok::<EF>(old(circuit), lv_of(*self, old(circuit)), old(cache)@),
                 outlives_cache(*expr), // the cache keys are node addresses
        ensures final(circuit).extends_pure(old(circuit)), final(circuit).has(r), final(circuit).val(r) == den_b(lv_of(*self, old(circuit)), *expr),
                bcache_ok::<EF>(final(circuit), lv_of(*self, old(circuit)), final(cache)@)
    { unimplemented!() }
''')
    cb.at_start('''let ghost lv = lv_of(*self, circuit); let ghost c0 = *circuit;
        let ghost mut ns: Seq<SymbolicExpressionExt<EF>> = Seq::empty();''')
    cb.before('loop {', '''proof {
            assert(tasks@ =~= Seq::<W<'_, EF>>::empty().push(Work::Eval(expr)));
            lemma_run_push(Seq::<W<'_, EF>>::empty(), Work::Eval(expr), ns);
            lemma_weight_push(Seq::<W<'_, EF>>::empty(), Work::Eval(expr));
        }''')
    cb.loop('loop {', invariant_except_break=[
        ('frame', 'circuit.extends_pure(&c0) && xleaves_ok(&c0, *self) && lv == lv_of(*self, &c0)'),
        ('continuation', 'run_nodes(tasks@, ns) == Some(seq![*expr]) && tasks_in_range(*self, tasks@)'),
        ('stack', 'stack_ok::<EF>(circuit, lv, stack@, ns)'),
        ('cache', 'cache_ok::<EF>(circuit, lv, ext_cache@) && bcache_ok::<EF>(circuit, lv, base_cache@)'),
    ], ensures=[
        ('done', 'circuit.extends_pure(&c0) && tasks@.len() == 0 && run_nodes(tasks@, ns) == Some(seq![*expr]) && stack_ok::<EF>(circuit, lv, stack@, ns) && cache_ok::<EF>(circuit, lv, ext_cache@) && bcache_ok::<EF>(circuit, lv, base_cache@)'),
    ], decreases='weight(tasks@)')
    cb.before('match tasks.pop() {', 'let ghost told = tasks@;')
    cb.after('Some(work) => {', '''let ghost t0 = tasks@; let ghost ns0 = ns; let ghost st0 = stack@; let ghost cb0 = *circuit; let ghost ca0 = ext_cache@; let ghost bc0 = base_cache@;
                proof { assert(told =~= t0.push(work)); lemma_run_push(t0, work, ns0); lemma_weight_push(t0, work);
                        assert(tasks_in_range(*self, t0)) by { assert forall|i: int| 0 <= i < t0.len() implies (#[trigger] t0[i] matches Work::Eval(n) ==> vars_in_range(*self, *n)) by { assert(told[i] == t0[i]); } }
                        assert(told[told.len() - 1] == work);
                        lemma_lv_same(&c0, circuit, *self); }''')
    cb.after('stack.push(id);', '''proof {
                        let kn = key_node::<EF>(key);
                        ns = ns0.drop_last().push(kn);
                        assert(st0.len() == ns0.len() && ns0.len() >= 1);
                        assert(cb0.has(st0[st0.len() - 1]));
                        EF::sub_def(EF::fzero(), den(lv, ns0.last()));
                        lemma_stack_push::<EF>(&cb0, circuit, lv, st0.drop_last(), ns0.drop_last(), id, kn);
                        lemma_cache_insert::<EF>(&cb0, circuit, lv, ca0, key, id);
                        ax_bcache_extends(&cb0, circuit, lv, bc0);
                    }''', nth=0)
    cb.after('stack.push(id);', '''proof {
                        let kn = key_node::<EF>(key);
                        ns = ns0.drop_last().drop_last().push(kn);
                        assert(st0.len() == ns0.len() && ns0.len() >= 2);
                        assert(cb0.has(st0[st0.len() - 1]) && cb0.has(st0[st0.len() - 2]));
                        lemma_stack_push::<EF>(&cb0, circuit, lv, st0.drop_last().drop_last(), ns0.drop_last().drop_last(), id, kn);
                        lemma_cache_insert::<EF>(&cb0, circuit, lv, ca0, key, id);
                        ax_bcache_extends(&cb0, circuit, lv, bc0);
                    }''', nth=1)
    cb.after('stack.push(id);', '''proof {
                        ns = ns0.push(*node);
                        lemma_stack_push::<EF>(&cb0, circuit, lv, st0, ns0, id, *node);
                        lemma_cache_insert::<EF>(&cb0, circuit, lv, ca0, key, id);
                        if !(*node matches XE::Leaf(ExtLeaf::Base(_))) { ax_bcache_extends(&cb0, circuit, lv, bc0); }
                    }''', nth=2)
    cb.before('continue;', '''proof { ns = ns0.push(*node); lemma_stack_push::<EF>(&cb0, circuit, lv, st0, ns0, cached, *node); }''', nth=0)
    cb.before('continue;', '''proof { lemma_arm_neg::<EF>(t0, tasks@, ns0, key, *node); }''', nth=1)
    for n_ in (2, 3, 4):
        cb.before('continue;', '''proof { lemma_arm_bin::<EF>(t0, tasks@, ns0, key, *node); }''', nth=n_)
    cb.bind_tail('res_', 'proof { assert(ns =~= seq![*expr]); }')
    u.emit(cb)
    from vf.unit import pull_work_helpers
    wh_ = pull_work_helpers(u, [cb], 'SymbolicExpressionExt<EF>', '')
    if wh_:
        u.text("}\nimpl<'a, EF: FieldX> Work<'a, SymbolicExpressionExt<EF>, NodeKey> {")
        for h_ in wh_:
            u.emit(h_)
    u.text('''}
pub proof fn lemma_stack_push<F: Field>(a: &CircuitBuilder<F>, b: &CircuitBuilder<F>, lv: LeafVals<F>, st: Seq<ExprId>, ns: Seq<SymbolicExpressionExt<F>>, id: ExprId, n: SymbolicExpressionExt<F>)
    requires b.extends(a), stack_ok::<F>(a, lv, st, ns), b.has(id), b.val(id) == den(lv, n)
    ensures stack_ok::<F>(b, lv, st.push(id), ns.push(n))
{
    assert forall|i: int| 0 <= i < st.push(id).len() implies b.has(#[trigger] st.push(id)[i]) && b.val(st.push(id)[i]) == den(lv, ns.push(n)[i]) by {
        if i < st.len() { assert(a.has(st[i])); }
    }
}
pub proof fn lemma_cache_insert<F: Field>(a: &CircuitBuilder<F>, b: &CircuitBuilder<F>, lv: LeafVals<F>, c: Map<NodeKey, ExprId>, k: NodeKey, id: ExprId)
    requires b.extends(a), cache_ok::<F>(a, lv, c), b.has(id), b.val(id) == den(lv, key_node::<F>(k))
    ensures cache_ok::<F>(b, lv, c.insert(k, id))
{
    assert forall|kk: NodeKey| #[trigger] c.insert(k, id).dom().contains(kk) implies b.has(c.insert(k, id)[kk]) && b.val(c.insert(k, id)[kk]) == den(lv, key_node::<F>(kk)) by {
        if kk != k { assert(c.dom().contains(kk)); assert(a.has(c[kk])); }
    }
}
pub proof fn lemma_arm_neg<EF>(t0: Seq<W<'_, EF>>, t2: Seq<W<'_, EF>>, ns: Seq<SymbolicExpressionExt<EF>>, key: NodeKey, node: SymbolicExpressionExt<EF>)
    requires key_node::<EF>(key) == node, node is Neg, t2.len() == t0.len() + 2, t2.drop_last().drop_last() =~= t0,
             t2[t2.len() - 2] == Work::<SymbolicExpressionExt<EF>, NodeKey>::BuildNeg(key),
             t2[t2.len() - 1] matches Work::Eval(n) && *n == (match node { XE::Neg { x, .. } => *x, _ => arbitrary() }),
    ensures run_nodes(t2, ns) == run_nodes(t0, ns.push(node)), weight(t2) < weight(t0) + 2 * size(node) - 1
{
    let t1 = t2.drop_last();
    let x = match node { XE::Neg { x, .. } => *x, _ => arbitrary() };
    assert(t1.drop_last() =~= t0);
    assert(t2 =~= t1.push(t2.last())); assert(t1 =~= t0.push(t1.last()));
    lemma_run_push(t1, t2.last(), ns); lemma_run_push(t0, t1.last(), ns.push(x));
    lemma_weight_push(t1, t2.last()); lemma_weight_push(t0, t1.last());
    assert(ns.push(x).drop_last() =~= ns);
    assert(ns.push(x).last() == x);
    lemma_size_pos(x);
}
pub proof fn lemma_arm_bin<EF>(t0: Seq<W<'_, EF>>, t3: Seq<W<'_, EF>>, ns: Seq<SymbolicExpressionExt<EF>>, key: NodeKey, node: SymbolicExpressionExt<EF>)
    requires key_node::<EF>(key) == node, t3.len() == t0.len() + 3, t3.drop_last().drop_last().drop_last() =~= t0,
             t3[t3.len() - 3] matches Work::BuildBinary(k, op) && k == key && binop_node(op, node).is_some(),
             ({ let (x, y) = binop_node((match t3[t3.len() - 3] { Work::BuildBinary(_, op) => op, _ => arbitrary() }), node).unwrap();
                (t3[t3.len() - 2] matches Work::Eval(n) && *n == y) && (t3[t3.len() - 1] matches Work::Eval(n) && *n == x) }),
    ensures run_nodes(t3, ns) == run_nodes(t0, ns.push(node)), weight(t3) < weight(t0) + 2 * size(node) - 1
{
    let op = match t3[t3.len() - 3] { Work::BuildBinary(_, op) => op, _ => arbitrary() };
    let (x, y) = binop_node(op, node).unwrap();
    let t2 = t3.drop_last(); let t1 = t2.drop_last();
    assert(t1.drop_last() =~= t0);
    assert(t3 =~= t2.push(t3.last())); assert(t2 =~= t1.push(t2.last())); assert(t1 =~= t0.push(t1.last()));
    lemma_run_push(t2, t3.last(), ns); lemma_run_push(t1, t2.last(), ns.push(x)); lemma_run_push(t0, t1.last(), ns.push(x).push(y));
    lemma_weight_push(t2, t3.last()); lemma_weight_push(t1, t2.last()); lemma_weight_push(t0, t1.last());
    let s2 = ns.push(x).push(y);
    assert(s2.drop_last().drop_last() =~= ns);
    assert(s2[s2.len() - 2] == x && s2[s2.len() - 1] == y);
    lemma_size_pos(x); lemma_size_pos(y);
}
}''')
    return u
