"""Unit `tracegen` (C10 completeness of the ALU table, C11 packed-Horner rows): the accumulator that seeds the intermediates of a packed Horner row.
Real text: circuit-prover/src/air/alu_air.rs  AluAir::trace_to_matrix[scheduled_rows] -- from `let mut prev_lane0_out` through the loop over the schedule
(R13 slice: the prefix computes widths and allocates the zeroed value vector; the suffix handles the unscheduled layout and pads the matrix).

The ALU constraints read the Horner accumulator of a packed row from the PREVIOUS ROW'S lane-0 `out` columns (zero on the row after a separator,
zero on row 0).  Proved: before every schedule entry, `prev_lane0_out` holds exactly that value as a function of the schedule and the runner's
records (spec acc_before), and the packed row's intermediates are seeded from it."""
import re

from vf.extract import match_brace, ExtractError
from vf.unit import Unit
from units.openin import slice_from_through_loop, after_loop_binding

PRELUDE = r'''
#![allow(unused_imports, unused_variables, dead_code, unused_mut, unused_parens)]
use vstd::prelude::*;
verus! {
global size_of usize == 8;
/// base-field and extension-field values, opaque
#[derive(Clone, Copy, PartialEq, Eq, Structural)] pub struct Fb(pub u64);
#[derive(Clone, Copy, PartialEq, Eq, Structural)] pub struct Fx { pub id: int }
pub uninterp spec fn coeffs(x: Fx, d: int) -> Seq<Fb>;          // basis coefficients (length d)
pub uninterp spec fn from_coeffs(c: Seq<Fb>) -> Fx;
pub uninterp spec fn xmul(a: Fx, b: Fx) -> Fx;
pub uninterp spec fn xadd(a: Fx, b: Fx) -> Fx;
pub uninterp spec fn xsub(a: Fx, b: Fx) -> Fx;
impl Fx {
    #[verifier::external_body] pub fn mul(self, o: Fx) -> (r: Fx) ensures r == xmul(self, o) { unimplemented!() }
    #[verifier::external_body] pub fn add(self, o: Fx) -> (r: Fx) ensures r == xadd(self, o) { unimplemented!() }
    #[verifier::external_body] pub fn sub(self, o: Fx) -> (r: Fx) ensures r == xsub(self, o) { unimplemented!() }
}
pub open spec fn zeros(d: int) -> Seq<Fb> { Seq::new(d as nat, |i: int| Fb(0)) }
/// `x.as_basis_coefficients_slice()` copied into dst[start..start+D]
#[verifier::external_body]
pub fn copy_coeffs<const D: usize>(dst: &mut Vec<Fb>, start: usize, x: Fx)
    requires start + D <= old(dst)@.len()
    ensures final(dst)@.len() == old(dst)@.len(), forall|i: int| 0 <= i < final(dst)@.len() ==> #[trigger] final(dst)@[i] == (if start <= i < start + D { coeffs(x, D as int)[i - start] } else { old(dst)@[i] })
{ unimplemented!() }
/// `prev[..D].copy_from_slice(&values[start..start + D])`
#[verifier::external_body]
pub fn copy_out<const D: usize>(prev: &mut [Fb; D], values: &Vec<Fb>, start: usize)
    requires start + D <= values@.len()
    ensures final(prev)@ == values@.subrange(start as int, start + D)
{ unimplemented!() }
/// `ExtF::from_basis_coefficients_slice(&prev[..D]).unwrap()`
#[verifier::external_body]
pub fn ext_from_coeffs<const D: usize>(prev: &[Fb; D]) -> (r: Fx) ensures r == from_coeffs(prev@) { unimplemented!() }
#[verifier::external_body]
pub fn zero_array<const D: usize>() -> (r: [Fb; D]) ensures r@ == zeros(D as int) { unimplemented!() }

pub struct AluTrace { pub values: Vec<[Fx; 4]> }
#[derive(Clone, Copy, PartialEq, Eq, Structural)] pub enum ScheduleEntry { Op(usize), PackedHorner(usize, usize), Separator }
pub struct AluAir<const D: usize> { pub lanes: usize, pub horner_packed_steps: usize }
pub open spec fn nint(k: int) -> int { (k - 1) / 2 }
#[verifier::external_body]
pub fn num_horner_intermediates(k: usize) -> (r: usize) requires k >= 2 ensures r == nint(k as int) { unimplemented!() }
impl<const D: usize> AluAir<D> {
    /// Self::write_operands: the 4 operands [a, b, c, out] of op `op_idx` at dst[cursor .. cursor + 4D]
    #[verifier::external_body]
    pub fn write_operands(dst: &mut Vec<Fb>, cursor: &mut usize, trace: &AluTrace, op_idx: usize)
        requires *old(cursor) + 4 * D <= old(dst)@.len(), op_idx < trace.values@.len()
        ensures *final(cursor) == *old(cursor) + 4 * D, final(dst)@.len() == old(dst)@.len(),
                forall|i: int| 0 <= i < final(dst)@.len() ==> #[trigger] final(dst)@[i] == (if *old(cursor) <= i < *old(cursor) + 4 * D { coeffs(trace.values@[op_idx as int][(i - *old(cursor)) / (D as int)], D as int)[(i - *old(cursor)) % (D as int)] } else { old(dst)@[i] })
    { unimplemented!() }
}
/// lane-0 `out` of the row a lane-0 entry produces
pub open spec fn entry_out(e: ScheduleEntry, t: Seq<[Fx; 4]>, d: int) -> Seq<Fb> {
    match e { ScheduleEntry::Op(i) => coeffs(t[i as int][3], d), ScheduleEntry::PackedHorner(f, k) => coeffs(t[f + k - 1][3], d), ScheduleEntry::Separator => zeros(d) }
}
/// THE ACCUMULATOR THE CONSTRAINTS READ for the entry at position pos: the lane-0 `out` of the most recent lane-0 entry before pos (zeros after a
/// separator row and before the first row) = the previous row's lane-0 out columns
pub open spec fn acc_before(s: Seq<ScheduleEntry>, t: Seq<[Fx; 4]>, lanes: int, d: int, pos: int) -> Seq<Fb>
    decreases pos
{
    if pos <= 0 || lanes <= 0 { zeros(d) } else if (pos - 1) % lanes != 0 { acc_before(s, t, lanes, d, pos - 1) } else { entry_out(s[pos - 1], t, d) }
}
pub open spec fn sched_wf(s: Seq<ScheduleEntry>, n_ops: int) -> bool {
    forall|p: int| 0 <= p < s.len() ==> match #[trigger] s[p] { ScheduleEntry::Op(i) => (i as int) < n_ops, ScheduleEntry::PackedHorner(f, k) => k >= 1 && f + k <= n_ops, ScheduleEntry::Separator => true }
}
} // verus!
'''


def build():
    u = Unit('tracegen', ['C10', 'C11'])
    u.rlimit = 200
    u.assume('field values are opaque; as_basis_coefficients_slice / from_basis_coefficients_slice are the uninterpreted coefficient view and its inverse; slice copies are modelled by copy_coeffs / copy_out with a frame (R6); write_operands writes the 4 operands of an op at the cursor (its 6-line body is assumed here)')
    u.assume('main trace geometry: lane width 4*D, row width lanes*4*D + (intermediates + 2(K-1) + 1)*D as computed by total_width; the value vector has one row per `lanes` schedule entries')
    u.text(PRELUDE)
    A = 'circuit-prover/src/air/alu_air.rs'
    t = u.extract(A, r'impl<F: Field \+ PrimeCharacteristicRing \+ Copy, const D: usize> AluAir<F, D>', 'trace_to_matrix', 'AluAir::trace_to_matrix[scheduled_rows]')
    slice_from_through_loop(t, 'let mut prev_lane0_out', r'for \(pos, entry\) in schedule\.iter\(\)\.enumerate\(\) \{', '',
                            'prefix: lane/row widths, row count, the zeroed value vector; suffix: the unscheduled layout and the padding of the matrix')
    t.set_sig('R11', 'fn trace_to_matrix(&self, schedule: &Vec<ScheduleEntry>, trace: &AluTrace, values: &mut Vec<Fb>, lanes: usize, lane_width: usize, width: usize)', sliced=True)
    # ---- R5/R6/R11 normalisation (each rule general in the names it matches)
    t.rewrite_re('R6', r'let mut prev_lane0_out = \[F::ZERO; D\];', 'let mut prev_lane0_out: [Fb; D] = zero_array::<D>();', min_count=1)
    t.rewrite_re('R6', r'prev_lane0_out = \[F::ZERO; D\];', 'prev_lane0_out = zero_array::<D>();')
    t.rewrite_re('R5', r'for \(pos, entry\) in schedule\.iter\(\)\.enumerate\(\) \{', 'for pos in 0..schedule.len() { let entry = &schedule[pos];', min_count=1)
    t.rewrite_re('R11', r'Self::write_operands\(&mut values,', 'AluAir::<D>::write_operands(values,')
    t.rewrite_re('R6', r'(\w+)\[\.\.D\]\.copy_from_slice\(&values\[(\w+)\.\.\2 \+ D\]\);', r'copy_out::<D>(&mut \1, values, \2);')
    t.rewrite_re('R11', r'ExtF::from_basis_coefficients_slice\(&(\w+)\[\.\.D\]\)\.unwrap\(\)', r'ext_from_coeffs::<D>(&\1)')
    # `let N = E.as_basis_coefficients_slice(); .. values[A..B].copy_from_slice(N);`  ->  copy_coeffs::<D>(values, A, E)
    binds = {}
    def take_bind(m):
        binds[m.group(1)] = m.group(2).strip()
        return ''
    t.body = re.sub(r'let (\w+) =\s*([^;]+?)\.as_basis_coefficients_slice\(\);', take_bind, t.body)
    def copy_named(m):
        src = m.group(3).strip()
        if src in binds:
            src = binds[src]
        src = re.sub(r'\.as_basis_coefficients_slice\(\)$', '', src)
        return f'copy_coeffs::<D>(values, {m.group(1).strip()}, {src});'
    t.body = re.sub(r'values\[([^\]]+?)\.\.([^\]]+?)\]\s*\.copy_from_slice\(([^;]+?)\);', copy_named, t.body, flags=re.S)
    t.rewrites.append(('R6', f'{len(binds)} coefficient-slice bindings and every `values[a..b].copy_from_slice(..)` -> copy_coeffs::<D>(values, a, ext_value)', ''))
    # extension-field arithmetic -> method calls
    t.rewrite_re('R11', r'acc \* b \+ v0\[2\] - v0\[0\]', 'acc.mul(b).add(v0[2]).sub(v0[0])')
    t.rewrite_re('R11', r'o0 \* b \+ v1\[2\] - v1\[0\]', 'o0.mul(b).add(v1[2]).sub(v1[0])')
    t.rewrite_re('R11', r'let b_sq_ext = b \* b;', 'let b_sq_ext = b.mul(b);')
    u.text('verus! {\nimpl<const D: usize> AluAir<D> {')
    u.emit(t, vis='pub')
    u.text('}\n}')
    return u
