"""Unit `tracegen` (C10 completeness of the ALU table, C11 packed-Horner rows): the accumulator that seeds the intermediates of a packed Horner row.
Real text: circuit-prover/src/air/alu_air.rs  AluAir::trace_to_matrix[scheduled_rows] -- from `let mut prev_lane0_out` through the loop over the schedule
(R13 slice: the prefix computes widths and allocates the zeroed value vector; the suffix handles the unscheduled layout and pads the matrix).

The ALU constraints read the Horner accumulator of a packed row from the PREVIOUS ROW'S lane-0 `out` columns (zero on the row after a separator,
zero on row 0).  Proved: before every schedule entry, `prev_lane0_out` holds exactly that value as a function of the schedule and the runner's
records (spec acc_before), and the packed row's intermediates are seeded from it."""
import re

from vf.extract import match_brace, ExtractError
from vf.unit import Unit, unmap_or
from units.openin import slice_from_through_loop, after_loop_binding

PRELUDE = r'''
#![allow(unused_imports, unused_variables, dead_code, unused_mut, unused_parens)]
use vstd::prelude::*;
verus! {
global size_of usize == 8;
/// base-field and extension-field values, opaque
#[derive(Clone, Copy, PartialEq, Eq, Structural)] pub struct Fb(pub u64);
#[derive(Clone, Copy, PartialEq, Eq, Structural)] pub struct Fx { pub id: int }
pub uninterp spec fn coef(x: Fx, i: int) -> Fb;                  // i-th basis coefficient
pub open spec fn coeffs(x: Fx, d: int) -> Seq<Fb> { Seq::new(d as nat, |i: int| coef(x, i)) }
pub uninterp spec fn from_coeffs(c: Seq<Fb>) -> Fx;
pub uninterp spec fn xmul(a: Fx, b: Fx) -> Fx;
pub uninterp spec fn xadd(a: Fx, b: Fx) -> Fx;
pub uninterp spec fn xsub(a: Fx, b: Fx) -> Fx;
impl Fx {
    #[verifier::external_body] pub fn mul(self, o: Fx) -> (r: Fx) ensures r == xmul(self, o) { unimplemented!() }
    #[verifier::external_body] pub fn add(self, o: Fx) -> (r: Fx) ensures r == xadd(self, o) { unimplemented!() }
    #[verifier::external_body] pub fn sub(self, o: Fx) -> (r: Fx) ensures r == xsub(self, o) { unimplemented!() }
}
impl Fx { #[verifier::external_body] pub fn zero() -> (r: Fx) ensures forall|i: int| coef(r, i) == Fb(0) { unimplemented!() } }
pub trait CheckedSubStub { fn checked_sub_stub(&self, b: usize) -> (r: Option<usize>); }
impl CheckedSubStub for usize { fn checked_sub_stub(&self, b: usize) -> (r: Option<usize>) ensures r == (if *self >= b { Some((*self - b) as usize) } else { None::<usize> }) { if *self >= b { Some(*self - b) } else { None } } }
pub open spec fn zeros(d: int) -> Seq<Fb> { Seq::new(d as nat, |i: int| Fb(0)) }
/// `x.as_basis_coefficients_slice()` copied into dst[start..start+D]
#[verifier::external_body]
pub fn copy_coeffs<const D: usize>(dst: &mut Vec<Fb>, start: usize, x: Fx)
    requires start + D <= old(dst)@.len()
    ensures final(dst)@.len() == old(dst)@.len(), forall|i: int| 0 <= i < final(dst)@.len() ==> #[trigger] final(dst)@[i] == (if start <= i < start + D { coeffs(x, D as int)[i - start] } else { old(dst)@[i] })
{ unimplemented!() }
/// `prev[..D].copy_from_slice(&values[start..start + D])`
#[verifier::external_body]
pub fn copy_out<const D: usize>(prev: &mut [Fb; D], values: &Vec<Fb>, start: usize)
    requires start + D <= values@.len()
    ensures final(prev)@ == values@.subrange(start as int, start + D)
{ unimplemented!() }
/// `ExtF::from_basis_coefficients_slice(&prev[..D]).unwrap()`
#[verifier::external_body]
pub fn ext_from_coeffs<const D: usize>(prev: &[Fb; D]) -> (r: Fx) ensures r == from_coeffs(prev@), coeffs(r, D as int) == prev@ { unimplemented!() }
#[verifier::external_body]
pub fn zero_array<const D: usize>() -> (r: [Fb; D]) ensures r@ == zeros(D as int) { unimplemented!() }

pub struct AluTrace { pub values: Vec<[Fx; 4]> }
#[derive(Clone, Copy, PartialEq, Eq, Structural)] pub enum ScheduleEntry { Op(usize), PackedHorner(usize, usize), Separator }
pub struct AluAir<const D: usize> { pub lanes: usize, pub horner_packed_steps: usize }
pub open spec fn nint(k: int) -> int { (k - 1) / 2 }
#[verifier::external_body]
pub fn num_horner_intermediates(k: usize) -> (r: usize) requires k >= 2 ensures r == nint(k as int) { unimplemented!() }
impl<const D: usize> AluAir<D> {
    /// Self::write_operands: the 4 operands [a, b, c, out] of op `op_idx` at dst[cursor .. cursor + 4D]
    #[verifier::external_body]
    pub fn write_operands(dst: &mut Vec<Fb>, cursor: &mut usize, trace: &AluTrace, op_idx: usize)
        requires *old(cursor) + 4 * D <= old(dst)@.len(), op_idx < trace.values@.len()
        ensures *final(cursor) == *old(cursor) + 4 * D, final(dst)@.len() == old(dst)@.len(),
                forall|i: int| 0 <= i < final(dst)@.len() ==> #[trigger] final(dst)@[i] == (if *old(cursor) <= i < *old(cursor) + 4 * D { coeffs(trace.values@[op_idx as int][(i - *old(cursor)) / (D as int)], D as int)[(i - *old(cursor)) % (D as int)] } else { old(dst)@[i] })
    { unimplemented!() }
}
/// lane-0 `out` of the row a lane-0 entry produces
pub open spec fn entry_out(e: ScheduleEntry, t: Seq<[Fx; 4]>, d: int) -> Seq<Fb> {
    match e { ScheduleEntry::Op(i) => coeffs(t[i as int][3], d), ScheduleEntry::PackedHorner(f, k) => coeffs(t[f + k - 1][3], d), ScheduleEntry::Separator => zeros(d) }
}
/// THE ACCUMULATOR THE CONSTRAINTS READ for the entry at position pos: the lane-0 `out` of the most recent lane-0 entry before pos (zeros after a
/// separator row and before the first row) = the previous row's lane-0 out columns
pub open spec fn acc_before(s: Seq<ScheduleEntry>, t: Seq<[Fx; 4]>, lanes: int, d: int, pos: int) -> Seq<Fb>
    decreases pos
{
    if pos <= 0 || lanes <= 0 { zeros(d) } else if (pos - 1) % lanes != 0 { acc_before(s, t, lanes, d, pos - 1) } else { entry_out(s[pos - 1], t, d) }
}
/// a write outside [a, b) leaves values[a..b) as it was
pub proof fn lemma_region_frame(o: Seq<Fb>, n: Seq<Fb>, a: int, b: int, start: int, dd: int)
    requires n.len() == o.len(), 0 <= a <= b <= o.len(), (b <= start || start + dd <= a), forall|i: int| 0 <= i < n.len() && !(start <= i < start + dd) ==> #[trigger] n[i] == o[i]
    ensures n.subrange(a, b) == o.subrange(a, b)
{ assert(n.subrange(a, b) =~= o.subrange(a, b)); }
pub proof fn lemma_div_mod_operand(dd: int, q: int, m: int) requires dd > 0, 0 <= m < dd, q >= 0 ensures (q * dd + m) / dd == q, (q * dd + m) % dd == m
{ assert((q * dd + m) / dd == q && (q * dd + m) % dd == m) by (nonlinear_arith) requires dd > 0, 0 <= m < dd, q >= 0; }
pub open spec fn sched_wf(s: Seq<ScheduleEntry>, n_ops: int) -> bool {
    forall|p: int| 0 <= p < s.len() ==> match #[trigger] s[p] { ScheduleEntry::Op(i) => (i as int) < n_ops, ScheduleEntry::PackedHorner(f, k) => k >= 1 && f + k <= n_ops, ScheduleEntry::Separator => true }
}
} // verus!
'''


def build():
    u = Unit('tracegen', ['C10', 'C11'])
    u.rlimit = 200
    u.assume('field values are opaque; as_basis_coefficients_slice / from_basis_coefficients_slice are the uninterpreted coefficient view and its inverse; slice copies are modelled by copy_coeffs / copy_out with a frame (R6); write_operands writes the 4 operands of an op at the cursor (its 6-line body is assumed here)')
    u.assume('main trace geometry: lane width 4*D, row width lanes*4*D + (intermediates + 2(K-1) + 1)*D as computed by total_width; the value vector has one row per `lanes` schedule entries')
    u.text(PRELUDE)
    A = 'circuit-prover/src/air/alu_air.rs'
    t = u.extract(A, r'impl<F: Field \+ PrimeCharacteristicRing \+ Copy, const D: usize> AluAir<F, D>', 'trace_to_matrix', 'AluAir::trace_to_matrix[scheduled_rows]')
    # the running accumulator is a local of the real code: the contract is attached to it when it exists; the seeding assertion below never names it
    HAS_ACC = 'let mut prev_lane0_out' in t.body
    slice_from_through_loop(t, 'let mut prev_lane0_out' if HAS_ACC else 'for (pos, entry) in schedule.iter().enumerate() {', r'for \(pos, entry\) in schedule\.iter\(\)\.enumerate\(\) \{', '',
                            'prefix: lane/row widths, row count, the zeroed value vector; suffix: the unscheduled layout and the padding of the matrix')
    t.set_sig('R11', 'fn trace_to_matrix(&self, schedule: &Vec<ScheduleEntry>, trace: &AluTrace, values: &mut Vec<Fb>, lanes: usize, lane_width: usize, width: usize, Ghost(nrows): Ghost<int>)', sliced=True)
    # ---- R5/R6/R11 normalisation (each rule general in the names it matches)
    t.rewrite_re('R6', r'let mut prev_lane0_out = \[F::ZERO; D\];', 'let mut prev_lane0_out: [Fb; D] = zero_array::<D>();', min_count=0)
    t.rewrite_re('R6', r'prev_lane0_out = \[F::ZERO; D\];', 'prev_lane0_out = zero_array::<D>();')
    t.rewrite_re('R5', r'for \(pos, entry\) in schedule\.iter\(\)\.enumerate\(\) \{', 'for pos in 0..schedule.len() { let entry = &schedule[pos];', min_count=1)
    t.rewrite_re('R11', r'Self::write_operands\(&mut values,', 'AluAir::<D>::write_operands(values,')
    t.rewrite_re('R6', r'(\w+)\[\.\.D\]\.copy_from_slice\(&values\[(\w+)\.\.\2 \+ D\]\);', r'copy_out::<D>(&mut \1, values, \2);')
    t.rewrite_re('R11', r'ExtF::from_basis_coefficients_slice\(&(\w+)\[\.\.D\]\)\.unwrap\(\)', r'ext_from_coeffs::<D>(&\1)')
    # `let N = E.as_basis_coefficients_slice(); .. values[A..B].copy_from_slice(N);`  ->  copy_coeffs::<D>(values, A, E)
    binds = {}
    def take_bind(m):
        binds[m.group(1)] = m.group(2).strip()
        return ''
    t.body = re.sub(r'let (\w+) =\s*([^;]+?)\.as_basis_coefficients_slice\(\);', take_bind, t.body)
    def copy_named(m):
        src = m.group(3).strip()
        if src in binds:
            src = binds[src]
        src = re.sub(r'\.as_basis_coefficients_slice\(\)$', '', src)
        return f'copy_coeffs::<D>(values, {m.group(1).strip()}, {src});'
    t.body = re.sub(r'values\[([^\]]+?)\.\.([^\]]+?)\]\s*\.copy_from_slice\(([^;]+?)\);', copy_named, t.body, flags=re.S)
    t.rewrites.append(('R6', f'{len(binds)} coefficient-slice bindings and every `values[a..b].copy_from_slice(..)` -> copy_coeffs::<D>(values, a, ext_value)', ''))
    # extension-field arithmetic -> method calls
    t.rewrite_re('R11', r'\bExtF::ZERO\b', 'Fx::zero()')
    t.rewrite_re('R11', r'\.checked_sub\(', '.checked_sub_stub(')
    unmap_or(t)
    t.rewrite_re('R11', r'acc \* b \+ v0\[2\] - v0\[0\]', 'acc.mul(b).add(v0[2]).sub(v0[0])')
    t.rewrite_re('R11', r'o0 \* b \+ v1\[2\] - v1\[0\]', 'o0.mul(b).add(v1[2]).sub(v1[0])')
    t.rewrite_re('R11', r'let b_sq_ext = b \* b;', 'let b_sq_ext = b.mul(b);')
    GEO = ('1 <= D < 0x100 && lanes == self.lanes && 1 <= lanes < 0x1000 && lane_width == 4 * D && 2 <= self.horner_packed_steps < 0x400 '
           '&& width == lanes * lane_width + (nint(self.horner_packed_steps as int) + 2 * (self.horner_packed_steps - 1) + 1) * D '
           '&& 0 <= nrows < 0x100_0000 && schedule@.len() <= nrows * lanes && trace.values@.len() < 0x1_0000_0000_0000')
    t.requires('geometry', GEO + ' && old(values)@.len() == nrows * width')
    t.requires('schedule_refers_to_recorded_ops', 'sched_wf(schedule@, trace.values@.len() as int) && forall|p: int| 0 <= p < schedule@.len() ==> (#[trigger] schedule@[p] matches ScheduleEntry::PackedHorner(f, k) ==> k <= self.horner_packed_steps)')
    t.ensures('no_resize', 'final(values)@.len() == old(values)@.len()')
    t.at_start('let ghost sc = schedule@; let ghost tv = trace.values@; let ghost d = D as int; let ghost km = self.horner_packed_steps as int;'
               ' proof { assert(0 <= nint(km) <= km); assert(width < 0x100_0000) by (nonlinear_arith) requires width == lanes * lane_width + (nint(km) + 2 * (km - 1) + 1) * D, 0 <= lanes < 0x1000, lane_width == 4 * D, 0 < D < 0x100, 2 <= km < 0x400, 0 <= nint(km) <= km;'
               ' assert(nrows * width < 0x1_0000_0000_0000) by (nonlinear_arith) requires 0 <= nrows < 0x100_0000, 0 <= width < 0x100_0000; }')
    t.attr('#[verifier::loop_isolation(false)]')
    MAIN, L_OP, L_S, L_T = 'for pos in 0..schedule.len()', 'for operand in 0..3', 'for s in 0..num_int', 'for t in 1..k'
    t.after('let lane = pos % lanes;', ''' let ghost r0 = row * width; let ghost xs = nint(km); let ghost lw = lane_width as int; let ghost vlen = nrows * width;
                proof {
                    assert(row < nrows) by (nonlinear_arith) requires pos < nrows * lanes, row == pos / lanes, lanes > 0, pos >= 0;
                    assert(r0 + width <= vlen) by (nonlinear_arith) requires r0 == row * width, vlen == nrows * width, 0 <= row < nrows, width >= 0;
                    assert(r0 >= 0) by (nonlinear_arith) requires r0 == row * width, row >= 0, width >= 0;
                    assert(lane * lw + lw <= lanes * lw) by (nonlinear_arith) requires 0 <= lane < lanes, lw >= 0;
                    assert(lane * lw >= 0) by (nonlinear_arith) requires lane >= 0, lw >= 0;
                    assert(lanes * lw >= 0) by (nonlinear_arith) requires lanes >= 0, lw >= 0;
                    assert(0 <= xs <= km);
                    assert(xs * d >= 0 && 2 * (km - 1) * d >= 0) by (nonlinear_arith) requires xs >= 0, d >= 1, km >= 2;
                    assert(width == lanes * lw + xs * d + 2 * (km - 1) * d + d) by (nonlinear_arith) requires width == lanes * lw + (xs + 2 * (km - 1) + 1) * d;
                    assert(vlen < 0x1_0000_0000_0000);
                }''')
    # ---- Op arm, lane 0: the out operand just written is what copy_out reads back
    if HAS_ACC:
        t.before('copy_out::<D>(&mut prev_lane0_out, values, out_start);', '''proof {
                                    assert forall|m: int| 0 <= m < d implies values@[r0 + 3 * d + m] == coef(tv[*i as int][3], m) by {
                                        lemma_div_mod_operand(d, 3, m);
                                        assert((r0 + 3 * d + m) - r0 == 3 * d + m);
                                        assert(coeffs(tv[*i as int][3], d)[m] == coef(tv[*i as int][3], m));
                                    }
                                }''', nth=0)
    if HAS_ACC:
        t.after('copy_out::<D>(&mut prev_lane0_out, values, out_start);', ''' proof { assert(prev_lane0_out@ =~= entry_out(sc[pos as int], tv, d)); }''', nth=0)
    # ---- PackedHorner arm
    t.after('let mut cursor = base;', ''' proof { assert(sc[pos as int] == ScheduleEntry::PackedHorner(*first_idx, *actual_k)); assert(k >= 1 && *first_idx + k <= tv.len() && k <= km); }''')
    t.before('copy_coeffs::<D>(values, cursor, trace.values[*first_idx][operand]);', 'proof { let op_ = operand as int; assert(op_ * d + d <= 4 * d) by (nonlinear_arith) requires 0 <= op_ < 3, d >= 1; assert(op_ * d >= 0) by (nonlinear_arith) requires op_ >= 0, d >= 1; }')
    t.after('cursor += D;', ' proof { let op_ = operand as int; assert((op_ + 1) * d == op_ * d + d) by (nonlinear_arith); }')
    t.after('let last = first_idx + k - 1;', ''' let ghost v_b = values@; proof { assert(cursor == base + 3 * D); }''')
    t.before('let extra = row * width + self.lanes * lane_width;', '''let ghost outv = coeffs(tv[last as int][3], d); let ghost o0 = r0 + 3 * d;
                            proof { assert(base == r0) by (nonlinear_arith) requires base == r0 + lane * lw, lane == 0; assert(values@.subrange(o0, o0 + d) =~= outv); }''')
    t.before('let b = trace.values[*first_idx][1];', '''proof {
                                assert(coeffs(prev_ext, d) =~= acc_before(sc, tv, lanes as int, d, pos as int)); // @@A:packed_row_intermediates_are_seeded_from_the_previous_rows_lane0_out
                            }''')
    t.before('let off = extra + s * D;', '''let ghost v_s = values@; proof { assert(s * d + d <= xs * d) by (nonlinear_arith) requires 0 <= s < xs, d >= 1; assert(s * d >= 0) by (nonlinear_arith) requires s >= 0, d >= 1; }''')
    t.after('copy_coeffs::<D>(values, off, acc);', ''' proof { lemma_region_frame(v_s, values@, o0, o0 + d, off as int, d); }''')
    t.before('let off = ac_base + 2 * (t - 1) * D;', '''let ghost v_t = values@; proof { assert(2 * (t - 1) * d + 2 * d <= 2 * (km - 1) * d) by (nonlinear_arith) requires 1 <= t < k, k <= km, d >= 1; assert(2 * (t - 1) * d >= 0) by (nonlinear_arith) requires t >= 1, d >= 1; }''')
    t.after('copy_coeffs::<D>(values, off, trace.values[op_t][0]);', ''' let ghost v_t2 = values@; proof { lemma_region_frame(v_t, values@, o0, o0 + d, off as int, d); }''')
    t.after('copy_coeffs::<D>(values, off + D, trace.values[op_t][2]);', ''' proof { lemma_region_frame(v_t2, values@, o0, o0 + d, off + d, d); }''')
    t.before('copy_coeffs::<D>(values, b_sq_base, b_sq_ext);', 'let ghost v_q = values@;')
    t.after('copy_coeffs::<D>(values, b_sq_base, b_sq_ext);', ''' proof { lemma_region_frame(v_q, values@, o0, o0 + d, b_sq_base as int, d); }''')
    if HAS_ACC:
        t.after('copy_out::<D>(&mut prev_lane0_out, values, out_start);', ''' proof { assert(prev_lane0_out@ =~= entry_out(sc[pos as int], tv, d)); }''', nth=1)
    if HAS_ACC:
      t.at_loop_end(MAIN, '''proof {
                    assert(acc_before(sc, tv, lanes as int, d, pos + 1) == (if (pos as int) % (lanes as int) != 0 { acc_before(sc, tv, lanes as int, d, pos as int) } else { entry_out(sc[pos as int], tv, d) }));
                    assert(prev_lane0_out@ =~= acc_before(sc, tv, lanes as int, d, pos + 1)); // @@A:accumulator_is_the_previous_rows_lane0_out_zero_after_a_separator
                }''')
    t.loop(L_T, invariants=[('geometry', 'values@.len() == vlen && values@.subrange(o0, o0 + d) == outv')])
    t.loop(L_S, invariants=[('geometry', 'values@.len() == vlen && values@.subrange(o0, o0 + d) == outv && step <= 2 * s')])
    t.loop(L_OP, invariants=[('geometry', 'values@.len() == vlen && cursor == base + operand * D')])
    t.loop(MAIN, invariants=[
        ('geometry', 'values@.len() == nrows * width'),
    ] + ([('accumulator_is_the_previous_rows_lane0_out', 'prev_lane0_out@ == acc_before(sc, tv, lanes as int, d, pos as int)')] if HAS_ACC else []))
    u.text('verus! {\nimpl<const D: usize> AluAir<D> {')
    u.emit(t, vis='pub')
    u.text('}\n}')
    return u
