"""Unit `vbatch` (C08): the batch-opening driver.  Real text: recursion/src/pcs/mmcs.rs verify_batch_circuit (whole function).
Native counterpart (p3-merkle-tree MerkleTreeMmcs::verify_batch): matrices sorted by height, tallest first, STABLY (equal heights keep their
matrix order); per level the rows (+ salt) of the matrices whose padded height is that level are hashed together; the path is recomputed
with the low index bits and compared with the cap entry selected by the high index bits.
Proved: the function asserts exactly  mmcs_rel(level digests, path bits, selected cap entry)  where level digest i is the sponge of the
concatenation, in stable height order, of [coefficients | salt] of the matrices consumed at level i, the path bits are index_bits[..path_depth]
and the root is the cap entry at the little-endian index of index_bits[path_depth..].
Callees: select_cap_entry (unit mmcs), add_hash_base_coeffs_overwrite / add_mmcs_verify (assumed here: value-level sponge / path relation;
units hash and mbind put their internals under contract, with recorded findings)."""
import os
import re

from vf.extract import match_brace, ExtractError
from vf.unit import Unit, normalize_let_chains
from units.mmcs import SPEC as MMCS_SPEC

HERE = os.path.dirname(os.path.abspath(__file__))

SPEC = r'''
verus! {
use vstd::slice::slice_subrange;
#[derive(Debug)]
pub struct CircuitBuilderError { pub _p: () }
impl CircuitBuilderError { #[verifier::external_body] pub fn wrong_batch_size(expected: usize, got: usize) -> Self { unimplemented!() } }
#[derive(Clone, Copy)] pub struct NonPrimitiveOpId(pub u32);
#[derive(Clone, Copy, PartialEq, Eq, Structural)] pub struct PermConfig { pub id: int }
#[derive(Clone, Copy, PartialEq, Eq, Structural)] pub struct Dimensions { pub width: usize, pub height: usize }

pub open spec fn is_pow2i(n: int) -> bool { exists|k: int| 0 <= k < 64 && #[trigger] pow2i(k) == n }
/// `log2_strict_usize(n)`: panics unless n is a power of two
#[verifier::external_body]
pub fn log2_strict_usize(n: usize) -> (r: usize) requires is_pow2i(n as int) ensures pow2i(r as int) == n, r < 64 { unimplemented!() }
pub uninterp spec fn npow2(h: usize) -> usize;      // usize::next_power_of_two
#[verifier::external_body]
pub fn next_power_of_two(h: usize) -> (r: usize) ensures r == npow2(h) { h.next_power_of_two() }
#[verifier::external_body]
pub fn shl1(k: usize) -> (r: usize) requires k < 64 ensures r == pow2i(k as int) { 1 << k }

/// `select_cap_entry` as proved in unit mmcs
#[verifier::external_body]
pub fn select_cap_entry<EF: FieldX>(circuit: &mut CircuitBuilder<EF>, cap: &[Vec<Target>], index_bits: &[Target]) -> (ret: Vec<Target>)
    requires cap@.len() == pow2i(index_bits@.len() as int) && index_bits@.len() < 40,
             rows_ok(old(circuit), cap@, cap@[0]@.len() as int) && old(circuit).has_all(index_bits@),
             forall|k: int| 0 <= k < index_bits@.len() ==> is_bool(old(circuit).val(#[trigger] index_bits@[k]))
    ensures final(circuit).extends_pure(old(circuit)),
            ({ let c0 = old(circuit); let idx = idx_lo(c0.vals_of(index_bits@), index_bits@.len() as int);
               0 <= idx < cap@.len() && ret@.len() == cap@[idx]@.len() && final(circuit).has_all(ret@) && final(circuit).vals_of(ret@) == c0.vals_of(cap@[idx]@) })
{ unimplemented!() }

/// overwrite-mode sponge of a coefficient list (native PaddingFreeSponge), by value
pub uninterp spec fn sponge<F: Field>(cfg: PermConfig, coeffs: Seq<F>, reset: bool, alu_recompose: bool, merkle_seed: bool) -> Seq<F>;
#[verifier::external_body]
pub fn add_hash_base_coeffs_overwrite<EF: FieldX>(circuit: &mut CircuitBuilder<EF>, permutation_config: &PermConfig, base_coeffs: &[Target], reset: bool, alu_recompose: bool, merkle_seed: bool)
    -> (ret: Result<Vec<Target>, CircuitBuilderError>)
    requires old(circuit).has_all(base_coeffs@)
    ensures final(circuit).extends_pure(old(circuit)),
            ret matches Ok(d) ==> final(circuit).has_all(d@) && final(circuit).vals_of(d@) == sponge(*permutation_config, old(circuit).vals_of(base_coeffs@), reset, alu_recompose, merkle_seed)
{ unimplemented!() }
/// the relation add_mmcs_verify asserts (internals: unit mbind): recomputing the path from the per-level digests with the direction bits gives the root
pub uninterp spec fn mmcs_rel<F: Field>(cfg: PermConfig, digests: Seq<Seq<F>>, bits: Seq<F>, root: Seq<F>) -> bool;
pub open spec fn vals2<F: Field>(b: &CircuitBuilder<F>, vv: Seq<Vec<Target>>) -> Seq<Seq<F>> { Seq::new(vv.len(), |i: int| b.vals_of(vv[i]@)) }
impl<F: Field> CircuitBuilder<F> {
    #[verifier::external_body]
    pub fn add_mmcs_verify(&mut self, permutation_config: PermConfig, openings: &[Vec<Target>], directions: &[Target], root: &[Target]) -> (ret: Result<Vec<NonPrimitiveOpId>, CircuitBuilderError>)
        requires forall|i: int| 0 <= i < openings@.len() ==> old(self).has_all(#[trigger] openings@[i]@), old(self).has_all(directions@), old(self).has_all(root@)
        ensures final(self).extends(old(self)),
                ret is Ok ==> final(self).sat@ == (old(self).sat@ && mmcs_rel(permutation_config, vals2(old(self), openings@), old(self).vals_of(directions@), old(self).vals_of(root@)))
    { unimplemented!() }
}

// ---- the height-sorted matrix order and its consumption level by level
/// the STABLE descending-height order of the matrices (itertools sorted_by_key(|(_, d)| Reverse(d.height)))
pub uninterp spec fn stable_order(dims: Seq<Dimensions>) -> Seq<usize>;
pub open spec fn sorted_perm(order: Seq<usize>, dims: Seq<Dimensions>) -> bool {
    &&& order.len() == dims.len() && order.no_duplicates() && (forall|k: int| 0 <= k < order.len() ==> (#[trigger] order[k] as int) < dims.len())
    &&& forall|a: int, b: int| 0 <= a < b < order.len() ==> dims[order[a] as int].height >= dims[order[b] as int].height
}
/// ASSUMPTION: the stable order is a descending-height permutation of the matrix indices
#[verifier::external_body]
pub proof fn ax_stable_order_is_sorted_perm(dims: Seq<Dimensions>) ensures sorted_perm(stable_order(dims), dims) {}
/// how far `peeking_take_while(padded height == curr)` advances from position pos
pub open spec fn take_end(order: Seq<usize>, dims: Seq<Dimensions>, pos: int, curr: usize) -> int
    decreases order.len() - pos
{
    if pos < 0 || pos >= order.len() || (order[pos] as int) >= dims.len() || npow2(dims[order[pos] as int].height) != curr { pos } else { take_end(order, dims, pos + 1, curr) }
}
pub struct SortedPeek { pub order: Vec<usize>, pub pos: usize }
impl SortedPeek {
    #[verifier::external_body]
    pub fn by_height_desc_stable(dims: &[Dimensions]) -> (r: Self) ensures r.order@ == stable_order(dims@), r.pos == 0 { unimplemented!() }
    /// sorted_unstable_by_key: SOME descending-height order
    #[verifier::external_body]
    pub fn by_height_desc_unstable(dims: &[Dimensions]) -> (r: Self) ensures sorted_perm(r.order@, dims@), r.pos == 0 { unimplemented!() }
    #[verifier::external_body]
    pub fn take_level(&mut self, dims: &[Dimensions], curr: usize) -> (r: Vec<usize>)
        requires old(self).pos <= old(self).order@.len()
        ensures final(self).order == old(self).order, final(self).pos == take_end(old(self).order@, dims@, old(self).pos as int, curr), final(self).pos <= final(self).order@.len(),
                r@ == old(self).order@.subrange(old(self).pos as int, final(self).pos as int)
    { unimplemented!() }
}
/// [coefficients | salt] of matrix m, by value
pub open spec fn leaf_vals<F: Field>(b: &CircuitBuilder<F>, coeffs: Seq<Vec<Target>>, salts: Option<Seq<Vec<Target>>>, m: int) -> Seq<F> {
    match salts { Some(s) => b.vals_of(coeffs[m]@) + b.vals_of(s[m]@), None => b.vals_of(coeffs[m]@) }
}
/// concatenation of the leaves of items[0..n]
pub open spec fn level_vals<F: Field>(b: &CircuitBuilder<F>, coeffs: Seq<Vec<Target>>, salts: Option<Seq<Vec<Target>>>, items: Seq<usize>, n: int) -> Seq<F>
    decreases n
{
    if n <= 0 { Seq::empty() } else { level_vals(b, coeffs, salts, items, n - 1) + leaf_vals(b, coeffs, salts, items[n - 1] as int) }
}
/// position of the cursor before level i
pub open spec fn cursor(order: Seq<usize>, dims: Seq<Dimensions>, maxlog: int, i: int) -> int
    decreases i
{
    if i <= 0 { 0 } else { take_end(order, dims, cursor(order, dims, maxlog, i - 1), pow2i(maxlog - (i - 1)) as usize) }
}
pub open spec fn level_items(order: Seq<usize>, dims: Seq<Dimensions>, maxlog: int, i: int) -> Seq<usize> {
    order.subrange(cursor(order, dims, maxlog, i), cursor(order, dims, maxlog, i + 1))
}
pub open spec fn level_digest<F: Field>(b: &CircuitBuilder<F>, cfg: PermConfig, coeffs: Seq<Vec<Target>>, salts: Option<Seq<Vec<Target>>>, order: Seq<usize>, dims: Seq<Dimensions>, maxlog: int, i: int) -> Seq<F> {
    let it = level_items(order, dims, maxlog, i);
    let lv = level_vals(b, coeffs, salts, it, it.len() as int);
    if lv.len() == 0 { Seq::empty() } else { sponge(cfg, lv, true, salts is Some, false) }
}
pub open spec fn salts_view(s: Option<&[Vec<Target>]>) -> Option<Seq<Vec<Target>>> { match s { Some(x) => Some(x@), None => None } }
} // verus!
'''


def build():
    u = Unit('vbatch', ['C08'])
    u.rlimit = 150
    u.assume('builder arithmetic contracts (assumed); select_cap_entry as proved in unit mmcs; add_hash_base_coeffs_overwrite = the overwrite-mode sponge by value and add_mmcs_verify = the path relation by value (their internals: units hash, mbind)')
    u.assume('itertools sorted_by_key is the stable descending-height order (uninterpreted stable_order, a sorted permutation); sorted_unstable_by_key only SOME sorted permutation; peeking_take_while consumes the longest matching prefix')
    u.assume('usize::next_power_of_two uninterpreted; 1 << k = 2^k for k < 64; log2_strict_usize of a power of two')
    u.text(open(os.path.join(HERE, 'gadget_prelude.rs')).read())
    u.text(MMCS_SPEC)
    u.text(SPEC)
    M = 'recursion/src/pcs/mmcs.rs'
    v = u.extract(M, '', 'verify_batch_circuit', 'verify_batch_circuit')
    v.set_sig('R11', 'fn verify_batch_circuit<EF: FieldX>(circuit: &mut CircuitBuilder<EF>, permutation_config: PermConfig, commitment_cap: &[Vec<Target>], dimensions: &[Dimensions], index_bits: &[Target], '
                     'opened_base_coeffs: &[Vec<Target>], salts: Option<&[Vec<Target>]>) -> Result<Vec<NonPrimitiveOpId>, CircuitBuilderError>')
    v.rewrite_re('R11', r'let permutation_config: PermConfig = permutation_config\.into\(\);', '', min_count=1)
    v.rewrite_re('R8', r'CircuitBuilderError::WrongBatchSize \{\s*expected: ([^,]+),\s*got: ([^,}]+),?\s*\}', r'CircuitBuilderError::wrong_batch_size(\1, \2)', min_count=0)
    # R9: a debug assertion is a panic in debug builds: it must be provable from what the function has checked so far
    v.rewrite_re('R9', r'debug_assert_eq!\(\s*([^,;]+?),\s*([^,;]+?),\s*"[^"]*"\s*,?\s*\);', r'assert(\1 == \2); // @@A:a_debug_assertion_cannot_fail\n', min_count=0, flags_dotall=True)
    normalize_let_chains(v)
    v.rewrite_re('R9', r'assert!\(\s*!commitment_cap\.is_empty\(\),\s*"[^"]*"\s*,?\s*\);', 'assert(!(commitment_cap.len() == 0));', min_count=1)
    v.rewrite_re('R6', r'&(\w+)\[\.\.([^\]]+)\]', r'slice_subrange(\1, 0, \2)', min_count=0)
    v.rewrite_re('R6', r'&(\w+)\[([^\].]+)\.\.\]', r'slice_subrange(\1, \2, \1.len())', min_count=0)
    # R6: the itertools sort adaptor -> the stub with its documented contract (stable / unstable are DIFFERENT stubs)
    v.rewrite_re('R6', r'dimensions\s*\.iter\(\)\s*\.enumerate\(\)\s*\.sorted_by_key\(\|\(_, dims\)\| Reverse\(dims\.height\)\)\s*\.peekable\(\)', 'SortedPeek::by_height_desc_stable(dimensions)')
    v.rewrite_re('R6', r'dimensions\s*\.iter\(\)\s*\.enumerate\(\)\s*\.sorted_unstable_by_key\(\|\(_, dims\)\| Reverse\(dims\.height\)\)\s*\.peekable\(\)', 'SortedPeek::by_height_desc_unstable(dimensions)')
    v.rewrite_re('R6', r'let mut formatted_digests = vec!\[vec!\[\]; digest_levels\];', 'let mut formatted_digests: Vec<Vec<Target>> = empty_digests(digest_levels);', min_count=1)
    v.rewrite_re('R5', r'for \(i, digest\) in formatted_digests\.iter_mut\(\)\.enumerate\(\) \{', 'for i in it_: 0..formatted_digests.len() {', min_count=1)
    v.rewrite_re('R5', r'\*digest = (add_hash_base_coeffs_overwrite::<F, EF>\(.*?\)\?);', r'let d_ = \1; formatted_digests.set(i, d_);', min_count=1, flags_dotall=True)
    v.rewrite_re('R11', r'add_hash_base_coeffs_overwrite::<F, EF>\(', 'add_hash_base_coeffs_overwrite(')
    v.rewrite_re('R11', r'1 << \(([^()]+)\)', r'shl1(\1)', min_count=0)
    # R6: `ITER.peeking_take_while(|(_, dims)| dims.height.next_power_of_two() == curr_height).flat_map(|(mat_idx, _)| { BODY }).collect()`
    m = re.search(r'heights_tallest_first\s*\.peeking_take_while\(\|\(_, dims\)\| dims\.height\.next_power_of_two\(\) == curr_height\)\s*\.flat_map(\()', v.body)
    if not m:
        raise ExtractError('lost anchor in verify_batch_circuit: level pipeline')
    close = match_brace(v.body, m.start(1))
    inner = v.body[m.start(1) + 1:close]
    mc = re.match(r'\s*\|\(mat_idx, _\)\|\s*(.*)$', inner, flags=re.S)
    m2 = re.match(r'\s*\.collect\(\)', v.body[close + 1:])
    if not mc or not m2:
        raise ExtractError('lost anchor in verify_batch_circuit: level pipeline closure')
    new = ('{ let items_ = heights_tallest_first.take_level(dimensions, curr_height); let mut acc_: Vec<Target> = Vec::new(); '
           'for k_ in 0..items_.len() { let mat_idx = items_[k_]; let mut part_ = ' + mc.group(1).strip() + '; acc_.append(&mut part_); } acc_ }')
    v.body = v.body[:m.start()] + new + v.body[close + 1 + m2.end():]
    v.rewrites.append(('R6', '`ITER.peeking_take_while(padded height == curr).flat_map(|(mat_idx, _)| BODY).collect()` -> take_level + loop appending BODY (verbatim)', ''))
    v.rewrite_re('R6', r'coeffs\.extend\(salts\[mat_idx\]\.iter\(\)\.copied\(\)\);', 'coeffs.extend_from_slice(salts[mat_idx].as_slice());', min_count=1)
    v.rewrite_re('R6', r'circuit\.add_mmcs_verify\(\s*permutation_config,\s*&op_vals_digests,\s*path_bits,\s*&selected_root,\s*\)', 'circuit.add_mmcs_verify(permutation_config, op_vals_digests.as_slice(), path_bits, selected_root.as_slice())', min_count=1)
    v.rewrite_re('R6', r'(add_hash_base_coeffs_overwrite\(\s*circuit,\s*&permutation_config,\s*)&all_base_coeffs', r'\1all_base_coeffs.as_slice()', min_count=1)
    u.text('verus! {\n/// p3-merkle-tree geometry checks of a batch opening: equal heights inside one power-of-two bucket, index below the tallest height\npub uninterp spec fn native_geometry_ok<F: Field>(dims: Seq<Dimensions>, index_bits: Seq<F>) -> bool;\n/// every per-matrix salt of a hiding MMCS opening has SALT_ELEMS elements\npub uninterp spec fn salt_lengths_are_the_configured_ones(salts: Option<Seq<Vec<ExprId>>>) -> bool;\n}')
    u.text('''verus! {
#[verifier::external_body]
pub fn empty_digests(n: usize) -> (r: Vec<Vec<Target>>) ensures r@.len() == n, forall|i: int| 0 <= i < n ==> (#[trigger] r@[i])@.len() == 0 { unimplemented!() }
}''')
    CAPH = '(if commitment_cap@.len() == 1 { 0int } else { choose|k: int| 0 <= k < 64 && pow2i(k) == commitment_cap@.len() })'
    v.requires('cap_is_a_full_layer_selected_by_the_high_index_bits',
               'commitment_cap@.len() > 0 && is_pow2i(commitment_cap@.len() as int) && index_bits@.len() < 40 && (forall|k: int| 0 <= k < 64 && pow2i(k) == commitment_cap@.len() ==> k <= index_bits@.len())')
    v.requires('allocated', '''rows_ok(old(circuit), commitment_cap@, commitment_cap@[0]@.len() as int) && old(circuit).has_all(index_bits@)
            && (forall|m: int| 0 <= m < opened_base_coeffs@.len() ==> old(circuit).has_all(#[trigger] opened_base_coeffs@[m]@))
            && (salts matches Some(sl) ==> forall|m: int| 0 <= m < sl@.len() ==> old(circuit).has_all(#[trigger] sl@[m]@))''')
    v.requires('boolean_index_bits', 'forall|k: int| 0 <= k < index_bits@.len() ==> is_bool(old(circuit).val(#[trigger] index_bits@[k]))')
    v.ensures('frame', 'final(circuit).extends(old(circuit))')
    # native check_widths (p3-merkle-tree mmcs/geometry.rs): the leaf hash flattens the rows of one height into one stream, so a digest match does not pin where one row ends
    v.ensures('H_every_opened_row_has_the_width_of_its_matrix', 'ret is Ok ==> forall|i: int| 0 <= i < dimensions@.len() ==> (#[trigger] opened_base_coeffs@[i])@.len() == dimensions@[i].width')
    # native MerkleTreeMmcs::verify_batch (geometry.rs): heights that round up to the same power of two must be equal (IncompatibleHeights) and index < max_height (IndexOutOfBounds);
    # the circuit buckets matrices by the padded height only and takes the index as index_bits (open finding)
    v.ensures('H_the_claimed_heights_lie_on_the_native_ladder_and_the_index_is_below_the_tallest_height', 'ret is Ok ==> native_geometry_ok(dimensions@, old(circuit).vals_of(index_bits@))')
    # native MerkleTreeHidingMmcs::verify_batch rejects an opening whose salt is not SALT_ELEMS long (or is missing); the circuit appends whatever salt limbs the proof carries (open finding)
    v.ensures('H_every_salt_has_the_configured_length', 'ret is Ok ==> salt_lengths_are_the_configured_ones(salts_view(salts))')
    v.ensures('rejects_mismatched_batch_sizes', 'ret is Ok ==> dimensions@.len() == opened_base_coeffs@.len() && (salts matches Some(sl) ==> sl@.len() == opened_base_coeffs@.len())')
    v.ensures('asserts_the_native_batch_opening_relation',
              '''ret is Ok ==> ({
                    let c0 = old(circuit); let maxlog = index_bits@.len() as int;
                    let caph = if commitment_cap@.len() == 1 { 0int } else { choose|k: int| 0 <= k < 64 && pow2i(k) == commitment_cap@.len() };
                    let pd = maxlog - caph; let order = stable_order(dimensions@);
                    let idx = idx_lo(c0.vals_of(index_bits@.subrange(pd, maxlog)), caph);
                    final(circuit).sat@ == (c0.sat@ && mmcs_rel(permutation_config,
                        Seq::new((pd + 1) as nat, |i: int| level_digest(c0, permutation_config, opened_base_coeffs@, salts_view(salts), order, dimensions@, maxlog, i)),
                        c0.vals_of(index_bits@.subrange(0, pd)), c0.vals_of(commitment_cap@[idx]@)))
                })''')
    v.at_start('''let ghost order = stable_order(dimensions@); let ghost dims = dimensions@; let ghost cf = opened_base_coeffs@; let ghost sv = salts_view(salts); let ghost maxlog = index_bits@.len() as int;
        proof { ax_stable_order_is_sorted_perm(dims); lemma_pow2i_pos(0); }''')
    v.before('let max_height_log = index_bits.len();', '''proof {
            if commitment_cap@.len() == 1 { } else { let k = choose|k: int| 0 <= k < 64 && pow2i(k) == commitment_cap@.len(); lemma_pow2i_inj(k, cap_height as int); }
        }''')
    v.before('let selected_root = select_cap_entry(', '''let ghost pd = path_depth as int; let ghost caph = cap_height as int;
        proof {
            assert(cap_index_bits@ == index_bits@.subrange(pd, maxlog)); // @@A:cap_entry_selected_by_the_high_index_bits
            assert(path_bits@ == index_bits@.subrange(0, pd)); // @@A:path_recomputed_with_the_low_index_bits
            assert(circuit.has_all(cap_index_bits@)) by { assert forall|k: int| 0 <= k < cap_index_bits@.len() implies circuit.has(#[trigger] cap_index_bits@[k]) by { assert(circuit.has(index_bits@[pd + k])); } }
            assert forall|k: int| 0 <= k < cap_index_bits@.len() implies is_bool(circuit.val(#[trigger] cap_index_bits@[k])) by { assert(is_bool(circuit.val(index_bits@[pd + k]))); }
            if commitment_cap@.len() == 1 { assert(pow2i(0) == 1); }
        }''')
    LOOP = 'for i in it_: 0..formatted_digests.len()'
    INNER = 'for k_ in 0..items_.len()'
    v.before(LOOP, '''let ghost b_s = *circuit; let ghost idx = idx_lo(old(circuit).vals_of(index_bits@.subrange(pd, maxlog)), caph);
        proof { assert(cursor(order, dims, maxlog, 0) == 0); assert(sv matches Some(sl) ==> sl.len() == cf.len()); }''')
    v.before('circuit.add_mmcs_verify(permutation_config, op_vals_digests.as_slice(), path_bits, selected_root.as_slice())', '''let ghost b_e = *circuit;
    proof {
        assert(vals2(&b_e, op_vals_digests@) =~= Seq::new((pd + 1) as nat, |i: int| level_digest(old(circuit), permutation_config, cf, sv, order, dims, maxlog, i)));
        assert(b_e.has_all(path_bits@) && b_e.vals_of(path_bits@) =~= old(circuit).vals_of(index_bits@.subrange(0, pd))) by {
            assert forall|k: int| 0 <= k < path_bits@.len() implies b_e.has(#[trigger] path_bits@[k]) && b_e.val(path_bits@[k]) == old(circuit).val(index_bits@.subrange(0, pd)[k]) by { assert(old(circuit).has(index_bits@[k])); }
        }
        assert(b_e.has_all(selected_root@) && b_e.vals_of(selected_root@) =~= old(circuit).vals_of(commitment_cap@[idx]@)) by {
            assert forall|k: int| 0 <= k < selected_root@.len() implies b_e.has(#[trigger] selected_root@[k]) && b_e.val(selected_root@[k]) == b_s.val(selected_root@[k]) by { assert(b_s.has(selected_root@[k])); }
            assert(b_e.vals_of(selected_root@) =~= b_s.vals_of(selected_root@));
        }
    }''')
    v.after('let items_ = heights_tallest_first.take_level(dimensions, curr_height);', ''' proof {
            assert(curr_height == pow2i(maxlog - i) as usize); // @@A:level_i_holds_the_matrices_of_padded_height_2_pow_maxlog_minus_i
            lemma_take_end_bounds(order, dims, cursor(order, dims, maxlog, i as int), curr_height);
            assert(heights_tallest_first.pos == cursor(order, dims, maxlog, i + 1));
            assert(items_@ == level_items(order, dims, maxlog, i as int));
        }''')
    v.at_loop_end(INNER, '''proof {
                let m = mat_idx as int;
                assert(items_@[k_ as int] == order[cursor(order, dims, maxlog, i as int) + k_]);
                assert(0 <= m < dims.len());
                assert(old(circuit).has_all(cf[m]@));
                assert(acc_@ =~= acc_b + part_b);
                assert(circuit.vals_of(part_b) =~= leaf_vals(old(circuit), cf, sv, m)) by {
                    assert forall|q: int| 0 <= q < part_b.len() implies circuit.val(#[trigger] part_b[q]) == leaf_vals(old(circuit), cf, sv, m)[q] by {
                        if q < cf[m]@.len() { assert(old(circuit).has(cf[m]@[q])); } else { match sv { Some(sl) => { assert(old(circuit).has_all(sl[m]@)); assert(old(circuit).has(sl[m]@[q - cf[m]@.len()])); } None => {} } }
                    }
                }
                assert(circuit.has_all(acc_@)) by {
                    assert forall|q: int| 0 <= q < acc_@.len() implies circuit.has(#[trigger] acc_@[q]) by {
                        if q < acc_b.len() { assert(acc_@[q] == acc_b[q]); } else {
                            let r = q - acc_b.len(); assert(acc_@[q] == part_b[r]);
                            if r < cf[m]@.len() { assert(old(circuit).has(cf[m]@[r])); } else { match sv { Some(sl) => { assert(old(circuit).has_all(sl[m]@)); assert(old(circuit).has(sl[m]@[r - cf[m]@.len()])); } None => {} } }
                        }
                    }
                }
                assert(circuit.vals_of(acc_@) =~= circuit.vals_of(acc_b) + circuit.vals_of(part_b));
            }''')
    v.before('acc_.append(&mut part_);', 'let ghost acc_b = acc_@; let ghost part_b = part_@;')
    v.loop(INNER, invariants=[
        ('frame', 'circuit.extends_pure(old(circuit))'),
        ('order', 'order == stable_order(dimensions@) && sorted_perm(order, dims) && dims == dimensions@ && cf == opened_base_coeffs@ && sv == salts_view(salts) && dims.len() == cf.len() && (sv matches Some(sl) ==> sl.len() == cf.len())'),
        ('this_level', 'items_@ == level_items(order, dims, maxlog, i as int) && 0 <= cursor(order, dims, maxlog, i as int) <= cursor(order, dims, maxlog, i + 1) <= order.len()'),
        ('allocated', '(forall|m: int| 0 <= m < cf.len() ==> old(circuit).has_all(#[trigger] cf[m]@)) && (sv matches Some(sl) ==> forall|m: int| 0 <= m < sl.len() ==> old(circuit).has_all(#[trigger] sl[m]@))'),
        ('leaves_of_this_level_in_order', 'circuit.has_all(acc_@) && circuit.vals_of(acc_@) == level_vals(old(circuit), cf, sv, items_@, k_ as int)'),
    ])
    v.loop(LOOP, invariants=[
        ('frame', 'circuit.extends_pure(old(circuit)) && circuit.extends_pure(&b_s) && b_s.has_all(selected_root@) && b_s.vals_of(selected_root@) == old(circuit).vals_of(commitment_cap@[idx]@)'),
        ('order', 'order == stable_order(dimensions@) && sorted_perm(order, dims) && dims == dimensions@ && cf == opened_base_coeffs@ && sv == salts_view(salts) && dims.len() == cf.len() && (sv matches Some(sl) ==> sl.len() == cf.len())'),
        ('levels', 'maxlog == index_bits@.len() && max_height_log == maxlog && maxlog < 40 && it_.iter.end == path_depth + 1 && formatted_digests@.len() == path_depth + 1 && path_depth <= max_height_log && pd == path_depth'),
        ('allocated', '(forall|m: int| 0 <= m < cf.len() ==> old(circuit).has_all(#[trigger] cf[m]@)) && (sv matches Some(sl) ==> forall|m: int| 0 <= m < sl.len() ==> old(circuit).has_all(#[trigger] sl[m]@)) && old(circuit).has_all(index_bits@)'),
        ('matrices_consumed_in_the_stable_height_order', 'heights_tallest_first.order@ == order && heights_tallest_first.pos == cursor(order, dims, maxlog, i as int) && heights_tallest_first.pos <= order.len()'),
        ('level_digests_so_far', '''forall|j: int| 0 <= j < formatted_digests@.len() ==> circuit.has_all(#[trigger] formatted_digests@[j]@)
                && circuit.vals_of(formatted_digests@[j]@) == (if j < i { level_digest(old(circuit), permutation_config, cf, sv, order, dims, maxlog, j) } else { Seq::<EF>::empty() })'''),
    ])
    u.text('''verus! {
pub proof fn lemma_take_end_bounds(order: Seq<usize>, dims: Seq<Dimensions>, pos: int, curr: usize)
    requires 0 <= pos <= order.len()
    ensures pos <= take_end(order, dims, pos, curr) <= order.len()
    decreases order.len() - pos
{
    if pos < order.len() && (order[pos] as int) < dims.len() && npow2(dims[order[pos] as int].height) == curr { lemma_take_end_bounds(order, dims, pos + 1, curr); }
}
pub proof fn lemma_pow2i_inj(a: int, b: int) requires 0 <= a, 0 <= b, pow2i(a) == pow2i(b) ensures a == b decreases a {
    lemma_pow2i_pos(a); lemma_pow2i_pos(b);
    if a > 0 && b > 0 { lemma_pow2i_inj(a - 1, b - 1); } else if a > 0 { lemma_pow2i_pos(a - 1); } else if b > 0 { lemma_pow2i_pos(b - 1); }
}
}''')
    u.text('verus! {')
    u.emit(v, vis='pub')
    u.text('}')
    return u
