"""Unit `vbatchx` (C08): the batch-opening driver for rows that are already extension elements (FRI commit-phase openings).
Real text: recursion/src/pcs/mmcs.rs verify_batch_circuit_from_extension_opened (whole function).
Same native counterpart and same statement as unit vbatch (stable height order, per-level digests, low bits = path, high bits = cap index); only the
leaf hashing differs: without salts the extension rows of a level are hashed as extension elements (add_hash_extension_elements, unit hash), with
salts each row is flattened to base coefficients, the salt appended, and the level hashed with the base-coefficient sponge."""
import os
import re

from vf.extract import match_brace, ExtractError
from vf.unit import Unit, normalize_let_chains, uniter_collect, drop_capacity_hints
from units.mmcs import SPEC as MMCS_SPEC
from units.vbatch import SPEC as VB_SPEC

HERE = os.path.dirname(os.path.abspath(__file__))

SPEC = r'''
verus! {
/// basis coefficients of an extension element, embedded (decompose_ext_to_base_coeffs by value: units coef / bits, with their recorded findings)
pub uninterp spec fn ext_coeffs<F: Field>(x: F) -> Seq<F>;
/// add_hash_extension_elements by value (unit hash)
pub uninterp spec fn sponge_ext<F: Field>(cfg: PermConfig, elems: Seq<F>, reset: bool, merkle_seed: bool) -> Seq<F>;
impl<F: Field> CircuitBuilder<F> {
    #[verifier::external_body]
    pub fn decompose_ext_to_base_coeffs(&mut self, x: ExprId) -> (ret: Result<Vec<ExprId>, CircuitBuilderError>)
        requires old(self).has(x)
        ensures final(self).extends_pure(old(self)), ret matches Ok(v) ==> final(self).has_all(v@) && final(self).vals_of(v@) == ext_coeffs(old(self).val(x))
    { unimplemented!() }
}
#[verifier::external_body]
pub fn add_hash_extension_elements<EF: FieldX>(circuit: &mut CircuitBuilder<EF>, permutation_config: &PermConfig, ext_elements: &[Target], reset: bool, merkle_seed: bool)
    -> (ret: Result<Vec<Target>, CircuitBuilderError>)
    requires old(circuit).has_all(ext_elements@)
    ensures final(circuit).extends_pure(old(circuit)),
            ret matches Ok(d) ==> final(circuit).has_all(d@) && final(circuit).vals_of(d@) == sponge_ext(*permutation_config, old(circuit).vals_of(ext_elements@), reset, merkle_seed)
{ unimplemented!() }
#[verifier::external_body]
pub fn empty_digests(n: usize) -> (r: Vec<Vec<Target>>) ensures r@.len() == n, forall|i: int| 0 <= i < n ==> (#[trigger] r@[i])@.len() == 0 { unimplemented!() }

pub open spec fn flat_coeffs<F: Field>(vs: Seq<F>, n: int) -> Seq<F> decreases n { if n <= 0 { Seq::empty() } else { flat_coeffs(vs, n - 1) + ext_coeffs(vs[n - 1]) } }
/// salted leaf of matrix m: its row flattened to base coefficients, then its salt
pub open spec fn leaf_s<F: Field>(b: &CircuitBuilder<F>, rows: Seq<Vec<Target>>, salts: Seq<Vec<Target>>, m: int) -> Seq<F> {
    flat_coeffs(b.vals_of(rows[m]@), rows[m]@.len() as int) + b.vals_of(salts[m]@)
}
pub open spec fn lvl_s<F: Field>(b: &CircuitBuilder<F>, rows: Seq<Vec<Target>>, salts: Seq<Vec<Target>>, items: Seq<usize>, n: int) -> Seq<F> decreases n {
    if n <= 0 { Seq::empty() } else { lvl_s(b, rows, salts, items, n - 1) + leaf_s(b, rows, salts, items[n - 1] as int) }
}
pub open spec fn lvl_p<F: Field>(b: &CircuitBuilder<F>, rows: Seq<Vec<Target>>, items: Seq<usize>, n: int) -> Seq<F> decreases n {
    if n <= 0 { Seq::empty() } else { lvl_p(b, rows, items, n - 1) + b.vals_of(rows[items[n - 1] as int]@) }
}
pub open spec fn level_digest_x<F: Field>(b: &CircuitBuilder<F>, cfg: PermConfig, rows: Seq<Vec<Target>>, salts: Option<Seq<Vec<Target>>>, order: Seq<usize>, dims: Seq<Dimensions>, maxlog: int, i: int) -> Seq<F> {
    let it = level_items(order, dims, maxlog, i);
    if it.len() == 0 { Seq::empty() } else {
        match salts { Some(s) => sponge(cfg, lvl_s(b, rows, s, it, it.len() as int), true, true, false), None => sponge_ext(cfg, lvl_p(b, rows, it, it.len() as int), true, false) }
    }
}
pub proof fn lemma_take_end_bounds(order: Seq<usize>, dims: Seq<Dimensions>, pos: int, curr: usize)
    requires 0 <= pos <= order.len()
    ensures pos <= take_end(order, dims, pos, curr) <= order.len()
    decreases order.len() - pos
{
    if pos < order.len() && (order[pos] as int) < dims.len() && npow2(dims[order[pos] as int].height) == curr { lemma_take_end_bounds(order, dims, pos + 1, curr); }
}
pub proof fn lemma_pow2i_inj(a: int, b: int) requires 0 <= a, 0 <= b, pow2i(a) == pow2i(b) ensures a == b decreases a {
    lemma_pow2i_pos(a); lemma_pow2i_pos(b);
    if a > 0 && b > 0 { lemma_pow2i_inj(a - 1, b - 1); } else if a > 0 { lemma_pow2i_pos(a - 1); } else if b > 0 { lemma_pow2i_pos(b - 1); }
}
} // verus!
'''


def build():
    u = Unit('vbatchx', ['C08'])
    u.rlimit = 200
    u.assume('as unit vbatch (select_cap_entry proved in unit mmcs; sponge / path relation by value; stable sort adaptor; next_power_of_two uninterpreted)')
    u.assume('decompose_ext_to_base_coeffs returns the basis coefficients of its argument by value (units coef / bits put it under contract, with the recorded C12 findings); add_hash_extension_elements = extension sponge by value (unit hash)')
    u.text(open(os.path.join(HERE, 'gadget_prelude.rs')).read())
    u.text(MMCS_SPEC)
    u.text(VB_SPEC)
    u.text(SPEC)
    M = 'recursion/src/pcs/mmcs.rs'
    v = u.extract(M, '', 'verify_batch_circuit_from_extension_opened', 'verify_batch_circuit_from_extension_opened')
    drop_capacity_hints(v)
    v.set_sig('R11', 'fn verify_batch_circuit_from_extension_opened<EF: FieldX>(circuit: &mut CircuitBuilder<EF>, permutation_config: PermConfig, commitment_cap: &[Vec<Target>], dimensions: &[Dimensions], index_bits: &[Target], '
                     'opened_extension_values: &[Vec<Target>], salts: Option<&[Vec<Target>]>) -> Result<Vec<NonPrimitiveOpId>, CircuitBuilderError>')
    v.rewrite_re('R11', r'let permutation_config: PermConfig = permutation_config\.into\(\);', '', min_count=1)
    v.rewrite_re('R8', r'CircuitBuilderError::WrongBatchSize \{\s*expected: ([^,]+),\s*got: ([^,}]+),?\s*\}', r'CircuitBuilderError::wrong_batch_size(\1, \2)', min_count=2)
    v.rewrite_re('R9', r'assert!\(\s*!commitment_cap\.is_empty\(\),\s*"[^"]*"\s*,?\s*\);', 'assert(!(commitment_cap.len() == 0));', min_count=1)
    v.rewrite_re('R6', r'&(\w+)\[\.\.([^\]]+)\]', r'slice_subrange(\1, 0, \2)', min_count=0)
    v.rewrite_re('R6', r'&(\w+)\[([^\].]+)\.\.\]', r'slice_subrange(\1, \2, \1.len())', min_count=0)
    v.rewrite_re('R6', r'dimensions\s*\.iter\(\)\s*\.enumerate\(\)\s*\.sorted_by_key\(\|\(_, dims\)\| Reverse\(dims\.height\)\)\s*\.peekable\(\)', 'SortedPeek::by_height_desc_stable(dimensions)')
    v.rewrite_re('R6', r'dimensions\s*\.iter\(\)\s*\.enumerate\(\)\s*\.sorted_unstable_by_key\(\|\(_, dims\)\| Reverse\(dims\.height\)\)\s*\.peekable\(\)', 'SortedPeek::by_height_desc_unstable(dimensions)')
    v.rewrite_re('R6', r'let mut formatted_digests = vec!\[vec!\[\]; digest_levels\];', 'let mut formatted_digests: Vec<Vec<Target>> = empty_digests(digest_levels);', min_count=1)
    v.rewrite_re('R5', r'for \(i, digest\) in formatted_digests\.iter_mut\(\)\.enumerate\(\) \{', 'for i in it_: 0..formatted_digests.len() {', min_count=1)
    v.rewrite_re('R11', r'1 << \(([^()]+)\)', r'shl1(\1)', min_count=0)
    v.rewrite_re('R6', r'heights_tallest_first\s*\.peeking_take_while\(\|\(_, dims\)\| dims\.height\.next_power_of_two\(\) == curr_height\)\s*\.map\(\|\(mat_idx, _\)\| mat_idx\)\s*\.collect\(\)',
                 'heights_tallest_first.take_level(dimensions, curr_height)', min_count=1)
    v.rewrite_re('R6', r'mats_at_height\.is_empty\(\)', 'mats_at_height.len() == 0', min_count=0)
    # `*digest = EXPR;` -> bind + set (EXPR = the if/else expression, verbatim)
    m = re.search(r'\*digest = ', v.body)
    if not m:
        raise ExtractError('lost anchor in verify_batch_circuit_from_extension_opened: `*digest = ..`')
    j = v.body.index('if let Some(salts) = salts', m.end())
    o1 = v.body.index('{', j)
    c1 = match_brace(v.body, o1)
    me = re.match(r'\s*else\s*', v.body[c1 + 1:])
    o2 = c1 + 1 + me.end()
    c2 = match_brace(v.body, o2)
    semi = v.body.index(';', c2)
    expr = v.body[m.end():c2 + 1]
    v.body = v.body[:m.start()] + 'let d_ = ' + expr + '; formatted_digests.set(i, d_);' + v.body[semi + 1:]
    v.rewrites.append(('R5', '`*digest = IF_ELSE;` -> `let d_ = IF_ELSE; formatted_digests.set(i, d_);` (IF_ELSE verbatim)', ''))
    normalize_let_chains(v)
    v.rewrite_re('R5', r'for &mat_idx in &mats_at_height \{', 'for a_ in 0..mats_at_height.len() { let mat_idx = mats_at_height[a_];', min_count=0)
    v.rewrite_re('R5', r'for &ext in &opened_extension_values\[mat_idx\] \{', 'for e_ in 0..opened_extension_values[mat_idx].len() { let ext = opened_extension_values[mat_idx][e_];', min_count=0)
    v.rewrite_re('R6', r'all_base\.extend\(circuit\.decompose_ext_to_base_coeffs::<F>\(ext\)\?\);', '{ let mut t_ = circuit.decompose_ext_to_base_coeffs(ext)?; all_base.append(&mut t_); }', min_count=0)
    v.rewrite_re('R6', r'all_base\.extend\(salts\[mat_idx\]\.iter\(\)\.copied\(\)\);', 'all_base.extend_from_slice(salts[mat_idx].as_slice());', min_count=0)
    uniter_collect(v)
    v.rewrite_re('R11', r'add_hash_base_coeffs_overwrite::<F, EF>\(', 'add_hash_base_coeffs_overwrite(', min_count=0)
    v.rewrite_re('R11', r'add_hash_extension_elements::<F, EF>\(', 'add_hash_extension_elements(', min_count=0)
    v.rewrite_re('R6', r'(add_hash_base_coeffs_overwrite\(\s*circuit,\s*&permutation_config,\s*)&all_base\b', r'\1all_base.as_slice()', min_count=0)
    v.rewrite_re('R6', r'(add_hash_extension_elements\(\s*circuit,\s*&permutation_config,\s*)&all_ext\b', r'\1all_ext.as_slice()', min_count=0)
    v.rewrite_re('R6', r'circuit\.add_mmcs_verify\(\s*permutation_config,\s*&formatted_digests,\s*path_bits,\s*&selected_root,\s*\)', 'circuit.add_mmcs_verify(permutation_config, formatted_digests.as_slice(), path_bits, selected_root.as_slice())', min_count=1)
    v.attr('#[verifier::loop_isolation(false)]')
    v.requires('cap_is_a_full_layer_selected_by_the_high_index_bits',
               'commitment_cap@.len() > 0 && is_pow2i(commitment_cap@.len() as int) && index_bits@.len() < 40 && (forall|k: int| 0 <= k < 64 && pow2i(k) == commitment_cap@.len() ==> k <= index_bits@.len())')
    v.requires('allocated', '''rows_ok(old(circuit), commitment_cap@, commitment_cap@[0]@.len() as int) && old(circuit).has_all(index_bits@)
            && (forall|m: int| 0 <= m < opened_extension_values@.len() ==> old(circuit).has_all(#[trigger] opened_extension_values@[m]@))
            && (salts matches Some(sl) ==> forall|m: int| 0 <= m < sl@.len() ==> old(circuit).has_all(#[trigger] sl@[m]@))''')
    v.requires('boolean_index_bits', 'forall|k: int| 0 <= k < index_bits@.len() ==> is_bool(old(circuit).val(#[trigger] index_bits@[k]))')
    v.ensures('frame', 'final(circuit).extends(old(circuit))')
    # native check_widths (p3-merkle-tree mmcs/geometry.rs): the leaf hash flattens the rows of one height into one stream, so a digest match does not pin where one row ends
    v.ensures('H_every_opened_row_has_the_width_of_its_matrix', 'ret is Ok ==> forall|i: int| 0 <= i < dimensions@.len() ==> (#[trigger] opened_extension_values@[i])@.len() == dimensions@[i].width')
    v.ensures('rejects_mismatched_batch_sizes', 'ret is Ok ==> dimensions@.len() == opened_extension_values@.len() && (salts matches Some(sl) ==> sl@.len() == opened_extension_values@.len())')
    v.ensures('asserts_the_native_batch_opening_relation',
              '''ret is Ok ==> ({
                    let c0 = old(circuit); let maxlog = index_bits@.len() as int;
                    let caph = if commitment_cap@.len() == 1 { 0int } else { choose|k: int| 0 <= k < 64 && pow2i(k) == commitment_cap@.len() };
                    let pd = maxlog - caph; let order = stable_order(dimensions@);
                    let idx = idx_lo(c0.vals_of(index_bits@.subrange(pd, maxlog)), caph);
                    final(circuit).sat@ == (c0.sat@ && mmcs_rel(permutation_config,
                        Seq::new((pd + 1) as nat, |i: int| level_digest_x(c0, permutation_config, opened_extension_values@, salts_view(salts), order, dimensions@, maxlog, i)),
                        c0.vals_of(index_bits@.subrange(0, pd)), c0.vals_of(commitment_cap@[idx]@)))
                })''')
    v.at_start('''let ghost order = stable_order(dimensions@); let ghost dims = dimensions@; let ghost rows = opened_extension_values@; let ghost sv = salts_view(salts); let ghost maxlog = index_bits@.len() as int;
        proof { ax_stable_order_is_sorted_perm(dims); lemma_pow2i_pos(0); }''')
    v.before('let max_height_log = index_bits.len();', '''proof {
            if commitment_cap@.len() == 1 { } else { let k = choose|k: int| 0 <= k < 64 && pow2i(k) == commitment_cap@.len(); lemma_pow2i_inj(k, cap_height as int); }
        }''')
    v.before('let selected_root = select_cap_entry(', '''let ghost pd = path_depth as int; let ghost caph = cap_height as int;
        proof {
            assert(cap_index_bits@ == index_bits@.subrange(pd, maxlog)); // @@A:cap_entry_selected_by_the_high_index_bits
            assert(path_bits@ == index_bits@.subrange(0, pd)); // @@A:path_recomputed_with_the_low_index_bits
            assert(circuit.has_all(cap_index_bits@)) by { assert forall|k: int| 0 <= k < cap_index_bits@.len() implies circuit.has(#[trigger] cap_index_bits@[k]) by { assert(circuit.has(index_bits@[pd + k])); } }
            assert forall|k: int| 0 <= k < cap_index_bits@.len() implies is_bool(circuit.val(#[trigger] cap_index_bits@[k])) by { assert(is_bool(circuit.val(index_bits@[pd + k]))); }
            if commitment_cap@.len() == 1 { assert(pow2i(0) == 1); }
        }''')
    LOOP = 'for i in it_: 0..formatted_digests.len()'
    A_OUT = 'for a_ in 0..mats_at_height.len()'
    A_IN = 'for e_ in 0..opened_extension_values[mat_idx].len()'
    B_OUT = 'for i_mats_at_height in 0..mats_at_height.len()'
    B_IN = 'for i_opened_extension_values_mat_idx in 0..opened_extension_values[mat_idx].len()'
    v.before(LOOP, '''let ghost b_s = *circuit; let ghost idx = idx_lo(old(circuit).vals_of(index_bits@.subrange(pd, maxlog)), caph);
        proof { assert(cursor(order, dims, maxlog, 0) == 0); }''')
    v.before('circuit.add_mmcs_verify(permutation_config, formatted_digests.as_slice(), path_bits, selected_root.as_slice())', '''let ghost b_e = *circuit;
    proof {
        assert(vals2(&b_e, formatted_digests@) =~= Seq::new((pd + 1) as nat, |i: int| level_digest_x(old(circuit), permutation_config, rows, sv, order, dims, maxlog, i)));
        assert(b_e.has_all(path_bits@) && b_e.vals_of(path_bits@) =~= old(circuit).vals_of(index_bits@.subrange(0, pd))) by {
            assert forall|k: int| 0 <= k < path_bits@.len() implies b_e.has(#[trigger] path_bits@[k]) && b_e.val(path_bits@[k]) == old(circuit).val(index_bits@.subrange(0, pd)[k]) by { assert(old(circuit).has(index_bits@[k])); }
        }
        assert(b_e.has_all(selected_root@) && b_e.vals_of(selected_root@) =~= old(circuit).vals_of(commitment_cap@[idx]@)) by {
            assert forall|k: int| 0 <= k < selected_root@.len() implies b_e.has(#[trigger] selected_root@[k]) && b_e.val(selected_root@[k]) == b_s.val(selected_root@[k]) by { assert(b_s.has(selected_root@[k])); }
            assert(b_e.vals_of(selected_root@) =~= b_s.vals_of(selected_root@));
        }
    }''')
    v.after('let mats_at_height: Vec<usize> = heights_tallest_first.take_level(dimensions, curr_height);', ''' let ghost b_l = *circuit; let ghost fd_l = formatted_digests@; proof {
            assert(curr_height == pow2i(maxlog - i) as usize); // @@A:level_i_holds_the_matrices_of_padded_height_2_pow_maxlog_minus_i
            lemma_take_end_bounds(order, dims, cursor(order, dims, maxlog, i as int), curr_height);
            assert(heights_tallest_first.pos == cursor(order, dims, maxlog, i + 1));
            assert(mats_at_height@ == level_items(order, dims, maxlog, i as int));
            assert forall|k: int| 0 <= k < mats_at_height@.len() implies (#[trigger] mats_at_height@[k] as int) < rows.len() by { assert(mats_at_height@[k] == order[cursor(order, dims, maxlog, i as int) + k]); }
        }''')
    have = lambda h: h in v.body
    if have(A_OUT) and have(A_IN):
        lo = v._loop_open(A_IN)
        v.body = v.body[:lo + 1] + ' let ghost ab_b = all_base@; let ghost b_b = *circuit; ' + v.body[lo + 1:]
        v.at_loop_end(A_IN, '''proof {
                        CircuitBuilder::lemma_extends_pure_trans(old(circuit), &b_b, circuit); CircuitBuilder::lemma_extends_pure_trans(&b_l, &b_b, circuit);
                        let sl = sv.unwrap(); let rv = old(circuit).vals_of(rows[mat_idx as int]@);
                        assert(old(circuit).has(rows[mat_idx as int]@[e_ as int]));
                        assert(rv[e_ as int] == b_b.val(ext));
                        assert forall|q: int| 0 <= q < all_base@.len() implies circuit.has(#[trigger] all_base@[q]) by { if q < ab_b.len() { assert(all_base@[q] == ab_b[q]); assert(b_b.has(ab_b[q])); } }
                        assert(circuit.vals_of(all_base@) =~= b_b.vals_of(ab_b) + ext_coeffs(rv[e_ as int])) by {
                            assert forall|q: int| 0 <= q < ab_b.len() implies circuit.val(all_base@[q]) == b_b.val(ab_b[q]) by { assert(all_base@[q] == ab_b[q]); assert(b_b.has(ab_b[q])); }
                        }
                        assert(flat_coeffs(rv, e_ + 1) == flat_coeffs(rv, e_ as int) + ext_coeffs(rv[e_ as int]));
                    }''')
        lo_ = v._loop_open(A_IN); cl_ = match_brace(v.body, lo_)
        v.body = v.body[:cl_ + 1] + ' let ghost ab_i = all_base@; ' + v.body[cl_ + 1:]   # structural: right after the inner loop, whatever follows it
        lo = v._loop_open(A_OUT)
        v.body = v.body[:lo + 1] + ' let ghost ab_o = all_base@; let ghost b_o = *circuit; ' + v.body[lo + 1:]
        v.at_loop_end(A_OUT, '''proof {
                    let sl = sv.unwrap(); let m = mat_idx as int;
                    assert(old(circuit).has_all(sl[m]@));
                    assert(all_base@ =~= ab_i + sl[m]@); // @@A:salt_appended_after_the_flattened_row
                    assert(circuit.vals_of(all_base@) =~= circuit.vals_of(ab_i) + circuit.vals_of(sl[m]@));
                    assert(circuit.vals_of(sl[m]@) =~= old(circuit).vals_of(sl[m]@)) by { assert forall|q: int| 0 <= q < sl[m]@.len() implies circuit.val(#[trigger] sl[m]@[q]) == old(circuit).val(sl[m]@[q]) by { assert(old(circuit).has(sl[m]@[q])); } }
                    assert(circuit.vals_of(all_base@) =~= lvl_s(old(circuit), rows, sl, mats_at_height@, a_ as int) + leaf_s(old(circuit), rows, sl, m)) by {
                        assert forall|q: int| 0 <= q < sl[m]@.len() implies circuit.val(#[trigger] sl[m]@[q]) == old(circuit).val(sl[m]@[q]) by { assert(old(circuit).has(sl[m]@[q])); }
                    }
                    assert forall|q: int| 0 <= q < all_base@.len() implies circuit.has(#[trigger] all_base@[q]) by { if q >= all_base@.len() - sl[m]@.len() { assert(old(circuit).has(sl[m]@[q - (all_base@.len() - sl[m]@.len())])); } }
                }''')
        v.loop(A_IN, invariants=[('row_flattened_so_far', '''circuit.extends_pure(old(circuit)) && circuit.extends_pure(&b_l) && circuit.has_all(all_base@)
                        && circuit.vals_of(all_base@) == lvl_s(old(circuit), rows, sv.unwrap(), mats_at_height@, a_ as int) + flat_coeffs(old(circuit).vals_of(rows[mat_idx as int]@), e_ as int)''')])
        v.loop(A_OUT, invariants=[('salted_leaves_of_this_level_in_order', 'circuit.extends_pure(old(circuit)) && circuit.extends_pure(&b_l) && circuit.has_all(all_base@) && circuit.vals_of(all_base@) == lvl_s(old(circuit), rows, sv.unwrap(), mats_at_height@, a_ as int)')])
    if have(B_OUT) and have(B_IN):
        v.rewrite_re('SPEC-type', r'let mut v0_ = Vec::new\(\);', 'let mut v0_: Vec<Target> = Vec::new();', min_count=1)
        lo = v._loop_open(B_IN)
        v.body = v.body[:lo + 1] + ' let ghost v_b = v0_@; ' + v.body[lo + 1:]
        v.at_loop_end(B_IN, '''proof {
                let r = rows[mat_idx as int]@; assert(old(circuit).has(r[i_opened_extension_values_mat_idx as int]));
                assert(circuit.vals_of(v0_@) =~= circuit.vals_of(v_b).push(old(circuit).val(r[i_opened_extension_values_mat_idx as int])));
                assert(old(circuit).vals_of(r).take(i_opened_extension_values_mat_idx + 1) =~= old(circuit).vals_of(r).take(i_opened_extension_values_mat_idx as int).push(old(circuit).val(r[i_opened_extension_values_mat_idx as int])));
                assert forall|q: int| 0 <= q < v0_@.len() implies circuit.has(#[trigger] v0_@[q]) by { if q < v_b.len() { assert(v0_@[q] == v_b[q]); } }
            }''')
        v.at_loop_end(B_OUT, '''proof { let r = rows[mats_at_height@[i_mats_at_height as int] as int]@; assert(old(circuit).vals_of(r).take(r.len() as int) =~= old(circuit).vals_of(r)); }''')
        v.loop(B_IN, invariants=[('row_copied_so_far', '''circuit.has_all(v0_@) && circuit.vals_of(v0_@) == lvl_p(old(circuit), rows, mats_at_height@, i_mats_at_height as int) + old(circuit).vals_of(rows[mat_idx as int]@).take(i_opened_extension_values_mat_idx as int)''')])
        v.loop(B_OUT, invariants=[('rows_of_this_level_in_order', 'circuit.has_all(v0_@) && circuit.vals_of(v0_@) == lvl_p(old(circuit), rows, mats_at_height@, i_mats_at_height as int)')])
    v.at_loop_end(LOOP, '''proof {
            CircuitBuilder::lemma_extends_pure_trans(old(circuit), &b_l, circuit); CircuitBuilder::lemma_extends_pure_trans(&b_s, &b_l, circuit);
            assert forall|j: int| 0 <= j < formatted_digests@.len() implies circuit.has_all(#[trigger] formatted_digests@[j]@)
                && circuit.vals_of(formatted_digests@[j]@) == (if j < i + 1 { level_digest_x(old(circuit), permutation_config, rows, sv, order, dims, maxlog, j) } else { Seq::<EF>::empty() }) by {
                if j != i || mats_at_height@.len() == 0 {
                    assert(formatted_digests@[j] == fd_l[j]);
                    assert(b_l.has_all(fd_l[j]@));
                    assert(circuit.vals_of(fd_l[j]@) =~= b_l.vals_of(fd_l[j]@)) by { assert forall|q: int| 0 <= q < fd_l[j]@.len() implies circuit.val(#[trigger] fd_l[j]@[q]) == b_l.val(fd_l[j]@[q]) by { assert(b_l.has(fd_l[j]@[q])); } }
                    assert forall|q: int| 0 <= q < fd_l[j]@.len() implies circuit.has(#[trigger] fd_l[j]@[q]) by { assert(b_l.has(fd_l[j]@[q])); }
                }
            }
        }''')
    v.loop(LOOP, invariants=[
        ('frame', 'circuit.extends_pure(old(circuit)) && circuit.extends_pure(&b_s)'),
        ('levels', 'it_.iter.end == path_depth + 1 && formatted_digests@.len() == path_depth + 1'),
        ('matrices_consumed_in_the_stable_height_order', 'heights_tallest_first.order@ == order && heights_tallest_first.pos == cursor(order, dims, maxlog, i as int) && heights_tallest_first.pos <= order.len()'),
        ('level_digests_so_far', '''forall|j: int| 0 <= j < formatted_digests@.len() ==> circuit.has_all(#[trigger] formatted_digests@[j]@)
                && circuit.vals_of(formatted_digests@[j]@) == (if j < i { level_digest_x(old(circuit), permutation_config, rows, sv, order, dims, maxlog, j) } else { Seq::<EF>::empty() })'''),
    ])
    u.text('verus! {')
    u.emit(v, vis='pub')
    u.text('}')
    return u
