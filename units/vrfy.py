"""Unit `vrfy` (C16): what native verification reads from the proof.  Real text: circuit-prover/src/batch_stark_prover.rs
BatchStarkProver::verify::<D> (whole function).

The verdict of `verify` is proved to be the batch verifier's verdict on
  * AIRs rebuilt from (proof.rows, proof.table_packing, the VERIFIER-derived reduction, the registered plugins' reading of each entry),
  * lookup contexts DERIVED from those rebuilt AIRs (never read from the proof's common data),
  * per-table public values as listed in the proof, the low-level proof itself, and the preprocessed binding of `common`.
Because the serialized form of a proof drops exactly the lookup contexts of `stark_common` (serde_stark_common), the verdict being
independent of `common.lookups` is what makes a round-tripped proof verify identically."""
import re

from vf.extract import match_brace, ExtractError
from vf.unit import Unit, project_on, unmap_iter_collect_general
from units.pack import unmap_option

PRELUDE = r'''
#![allow(unused_imports, unused_variables, dead_code, unused_mut, unused_parens)]
use vstd::prelude::*;
verus! {
global size_of usize == 8;
pub const NUM_PRIMITIVE_TABLES: usize = 3;
#[derive(PartialEq, Eq, Structural)] pub struct BaseVal(pub u64);
impl Clone for BaseVal { fn clone(&self) -> (r: Self) ensures r == *self { BaseVal(self.0) } }
impl Copy for BaseVal {}
#[derive(Clone, Copy, PartialEq, Eq, Structural)] pub struct NpoTypeId(pub u32);
#[derive(Clone, Copy, PartialEq, Eq, Structural)] pub enum PrimitiveTable { Const, Public, Alu }
pub struct ErrMsg { pub _p: () }
#[verifier::external_body] pub fn errmsg() -> ErrMsg { unimplemented!() }
pub enum BatchStarkProverError { MissingWForExtension, Verify(ErrMsg), Other }

// ---- the stark configuration (opaque) and the data of the low-level batch proof (opaque)
pub struct StarkCfg { pub id: int, pub zk: usize }
impl StarkCfg { pub fn is_zk(&self) -> (r: usize) ensures r == self.zk { self.zk } }
pub struct BatchProof { pub id: int }

// ---- proof metadata, as far as verify::<D> reads it (field names as in BatchStarkProof / TablePacking / RowCounts / NonPrimitiveTableEntry)
pub struct TablePacking { pub public_lanes: usize, pub alu_lanes: usize, pub min_trace_height: usize, pub horner_packed_steps: usize }
impl TablePacking {
    pub fn public_lanes(&self) -> (r: usize) ensures r == self.public_lanes { self.public_lanes }
    pub fn alu_lanes(&self) -> (r: usize) ensures r == self.alu_lanes { self.alu_lanes }
    pub fn min_trace_height(&self) -> (r: usize) ensures r == self.min_trace_height { self.min_trace_height }
    pub fn horner_packed_steps(&self) -> (r: usize) ensures r == self.horner_packed_steps { self.horner_packed_steps }
}
pub struct RowCounts(pub [usize; 3]);
impl RowCounts {
    pub open spec fn at_spec(&self, t: PrimitiveTable) -> usize { match t { PrimitiveTable::Const => self.0@[0], PrimitiveTable::Public => self.0@[1], PrimitiveTable::Alu => self.0@[2] } }
    /// `impl Index<PrimitiveTable> for RowCounts` (self.0[table as usize])
    pub fn at(&self, t: PrimitiveTable) -> (r: usize) ensures r == self.at_spec(t) { match t { PrimitiveTable::Const => self.0[0], PrimitiveTable::Public => self.0[1], PrimitiveTable::Alu => self.0[2] } }
}
pub struct NonPrimitiveTableEntry { pub op_type: NpoTypeId, pub rows: usize, pub lanes: usize, pub public_values: Vec<BaseVal>, pub air_variant: u8 }
pub struct BatchStarkProof {
    pub proof: BatchProof, pub table_packing: TablePacking, pub rows: RowCounts, pub ext_degree: usize, pub w_binomial: Option<BaseVal>,
    pub alu_quintic_trinomial: bool, pub non_primitives: Vec<NonPrimitiveTableEntry>, pub stark_common: CommonData, pub alu_variant: u8,
}

// ---- AIR descriptors: a rebuilt AIR is determined by the arguments it was built from
#[derive(PartialEq, Eq, Structural)] pub struct AluExtMulKind { pub id: int }
pub uninterp spec fn sp_resolve(d: usize, w: Option<BaseVal>, quintic: bool) -> Option<AluExtMulKind>;
impl AluExtMulKind {
    #[verifier::external_body] pub fn resolve(d: usize, w: Option<BaseVal>, quintic: bool) -> (r: Option<AluExtMulKind>) ensures r == sp_resolve(d, w, quintic) { unimplemented!() }
}
pub struct ConstAir<const D: usize> { pub rows: usize, pub min_height: usize }
impl<const D: usize> ConstAir<D> {
    #[verifier::external_body] pub fn new(rows: usize) -> (r: Self) ensures r.rows == rows, r.min_height == 1 { unimplemented!() }
    #[verifier::external_body] pub fn with_min_height(self, h: usize) -> (r: Self) ensures r == (ConstAir::<D> { min_height: h, ..self }) { unimplemented!() }
}
pub struct PublicAir<const D: usize> { pub rows: usize, pub lanes: usize, pub min_height: usize }
impl<const D: usize> PublicAir<D> {
    #[verifier::external_body] pub fn new(rows: usize, lanes: usize) -> (r: Self) ensures r.rows == rows, r.lanes == lanes, r.min_height == 1 { unimplemented!() }
    #[verifier::external_body] pub fn with_min_height(self, h: usize) -> (r: Self) ensures r == (PublicAir::<D> { min_height: h, ..self }) { unimplemented!() }
}
pub struct AluAir<const D: usize> { pub rows: usize, pub lanes: usize, pub reduction: AluExtMulKind, pub horner_k: usize, pub min_height: usize }
impl<const D: usize> AluAir<D> {
    #[verifier::external_body] pub fn from_reduction(rows: usize, lanes: usize, reduction: AluExtMulKind) -> (r: Self)
        ensures r.rows == rows, r.lanes == lanes, r.reduction == reduction, r.horner_k == 2, r.min_height == 1 { unimplemented!() }
    #[verifier::external_body] pub fn with_horner_pack_k(self, k: usize) -> (r: Self) ensures r == (AluAir::<D> { horner_k: k, ..self }) { unimplemented!() }
    #[verifier::external_body] pub fn with_min_height(self, h: usize) -> (r: Self) ensures r == (AluAir::<D> { min_height: h, ..self }) { unimplemented!() }
}
pub struct DynamicAirEntry { pub id: int }
pub enum CircuitTableAir<const D: usize> { Const(ConstAir<D>), Public(PublicAir<D>), Alu(AluAir<D>), Dynamic(DynamicAirEntry) }

// ---- registered non-primitive table provers (plugins)
pub struct TableProver { pub id: int, pub op_type: NpoTypeId }
pub uninterp spec fn sp_batch_air(plugin: TableProver, cfg: StarkCfg, d: usize, ext: u32, e: NonPrimitiveTableEntry) -> Result<DynamicAirEntry, ErrMsg>;
impl TableProver {
    pub fn op_type(&self) -> (r: NpoTypeId) ensures r == self.op_type { self.op_type }
    #[verifier::external_body]
    pub fn batch_air_from_table_entry(&self, cfg: &StarkCfg, d: usize, ext: u32, e: &NonPrimitiveTableEntry) -> (r: Result<DynamicAirEntry, ErrMsg>)
        ensures r == sp_batch_air(*self, *cfg, d, ext, *e) { unimplemented!() }
}
/// `provers.iter().enumerate().map(|(i, p)| (p.op_type(), i)).collect::<BTreeMap<_, _>>()`: the LAST prover registered for a type wins
pub open spec fn sp_index(ps: Seq<TableProver>) -> Map<NpoTypeId, usize> decreases ps.len() {
    if ps.len() == 0 { Map::empty() } else { sp_index(ps.drop_last()).insert(ps.last().op_type, (ps.len() - 1) as usize) }
}
pub struct TypeIndex { pub m: Ghost<Map<NpoTypeId, usize>> }
impl TypeIndex {
    #[verifier::external_body] pub fn build(ps: &Vec<TableProver>) -> (r: Self) ensures r.m@ == sp_index(ps@) { unimplemented!() }
    #[verifier::external_body] pub fn get(&self, k: &NpoTypeId) -> (r: Option<&usize>)
        ensures r is Some <==> self.m@.dom().contains(*k), r is Some ==> *r.unwrap() == self.m@[*k] { unimplemented!() }
}
pub proof fn lemma_index_in_range(ps: Seq<TableProver>, t: NpoTypeId)
    requires sp_index(ps).dom().contains(t) ensures (sp_index(ps)[t] as int) < ps.len()
    decreases ps.len()
{
    if ps.len() > 0 && ps.last().op_type != t { lemma_index_in_range(ps.drop_last(), t); }
}

// ---- lookup contexts and common data (p3_batch_stark::CommonData { preprocessed, lookups })
pub struct Lookups { pub id: int }
impl Clone for Lookups { #[verifier::external_body] fn clone(&self) -> (r: Self) ensures r == *self { unimplemented!() } }
pub uninterp spec fn sp_lookups<const D: usize>(air: CircuitTableAir<D>, zk: usize) -> Lookups;
#[verifier::external_body]
pub fn lookups_for_circuit_table_air<const D: usize>(air: &CircuitTableAir<D>, is_zk: usize) -> (r: Lookups) ensures r == sp_lookups(*air, is_zk) { unimplemented!() }
#[derive(PartialEq, Eq, Structural)] pub struct Commitment { pub id: int }
#[derive(PartialEq, Eq, Structural)] pub struct Instances { pub id: int }
#[derive(PartialEq, Eq, Structural)] pub struct MatrixToInstance { pub id: int }
impl Clone for Commitment { #[verifier::external_body] fn clone(&self) -> (r: Self) ensures r == *self { unimplemented!() } }
impl Clone for Instances { #[verifier::external_body] fn clone(&self) -> (r: Self) ensures r == *self { unimplemented!() } }
impl Clone for MatrixToInstance { #[verifier::external_body] fn clone(&self) -> (r: Self) ensures r == *self { unimplemented!() } }
pub struct GlobalPreprocessed { pub commitment: Commitment, pub instances: Instances, pub matrix_to_instance: MatrixToInstance }
pub struct CommonData { pub preprocessed: Option<GlobalPreprocessed>, pub lookups: Vec<Lookups> }
/// the preprocessed width the binding declares for table i (0: no binding / no entry / no preprocessed columns)
pub open spec fn sp_declared_width(pre: Option<GlobalPreprocessed>, i: int) -> int { match sp_declared(pre, i) { Some(w) => w, None => 0 } }
/// the entry of the binding for table i, if there is a binding, it has an i-th entry and that entry has preprocessed columns
pub uninterp spec fn sp_declared(pre: Option<GlobalPreprocessed>, i: int) -> Option<int>;
/// `common.preprocessed.as_ref().and_then(|g| g.instances.get(i)).and_then(|meta| meta.as_ref()).map_or(DFLT, |meta| meta.width)`: the default is the code's (R6 keeps it verbatim)
#[verifier::external_body]
pub fn declared_width(common: &CommonData, i: usize, dflt: usize) -> (r: usize)
    ensures r == (match sp_declared(common.preprocessed, i as int) { Some(w) => w, None => dflt as int })
{ unimplemented!() }
pub uninterp spec fn sp_prep_width<const D: usize>(air: CircuitTableAir<D>) -> int;
impl<const D: usize> CircuitTableAir<D> {
    #[verifier::external_body]
    pub fn preprocessed_width(&self) -> (r: usize) ensures r == sp_prep_width(*self) { unimplemented!() }
}
/// the binding declares, for every rebuilt AIR, exactly the preprocessed width the AIR evaluates over
pub open spec fn widths_ok<const D: usize>(pre: Option<GlobalPreprocessed>, airs: Seq<CircuitTableAir<D>>) -> bool { forall|i: int| 0 <= i < airs.len() ==> sp_declared_width(pre, i) == sp_prep_width(#[trigger] airs[i]) }
impl CommonData {
    #[verifier::external_body]
    pub fn new(preprocessed: Option<GlobalPreprocessed>, lookups: Vec<Lookups>) -> (r: Self) ensures r.preprocessed == preprocessed, r.lookups == lookups { unimplemented!() }
}
/// `pvs.resize_with(n, Vec::new)` on a vector shorter than n
#[verifier::external_body]
pub fn resize_with_new(v: &mut Vec<Vec<BaseVal>>, n: usize)
    requires old(v)@.len() <= n
    ensures final(v)@.len() == n, forall|i: int| 0 <= i < n ==> (#[trigger] final(v)@[i])@ == (if i < old(v)@.len() { old(v)@[i]@ } else { Seq::<BaseVal>::empty() })
{ unimplemented!() }

/// the verdict of the external batch verifier, as a function of everything it is handed
pub uninterp spec fn batch_accepts<const D: usize>(cfg: StarkCfg, airs: Seq<CircuitTableAir<D>>, proof: BatchProof, pvs: Seq<Seq<BaseVal>>, pre: Option<GlobalPreprocessed>, lookups: Seq<Lookups>) -> bool;
pub open spec fn pvs_view(pvs: Seq<Vec<BaseVal>>) -> Seq<Seq<BaseVal>> { Seq::new(pvs.len(), |i: int| pvs[i]@) }
pub open spec fn lookups_of<const D: usize>(airs: Seq<CircuitTableAir<D>>, zk: usize) -> Seq<Lookups> { Seq::new(airs.len(), |i: int| sp_lookups(airs[i], zk)) }
pub mod p3_batch_stark {
    use super::*;
    /// PRECONDITION of the dependency: the lookup contexts in the common data are those of the AIRs being verified (it trusts them as verifier-side data)
    #[verifier::external_body]
    pub fn verify_batch<const D: usize>(cfg: &StarkCfg, airs: &Vec<CircuitTableAir<D>>, proof: &BatchProof, pvs: &Vec<Vec<BaseVal>>, common: &CommonData) -> (r: Result<(), ErrMsg>)
        requires
            common.lookups@ == lookups_of(airs@, cfg.zk),
            airs@.len() == pvs@.len(),
        ensures r is Ok <==> batch_accepts(*cfg, airs@, *proof, pvs_view(pvs@), common.preprocessed, common.lookups@)
    { unimplemented!() }
}

pub struct BatchStarkProver { pub config: StarkCfg, pub table_packing: TablePacking, pub non_primitive_provers: Vec<TableProver>, pub debug_lookups: bool, pub alu_variant: u8 }

// ---- the AIR list and public values verification must run on, as a function of metadata and the verifier's own parameters
pub open spec fn prim_airs<const D: usize>(proof: BatchStarkProof, red: AluExtMulKind) -> Seq<CircuitTableAir<D>> {
    let p = proof.table_packing;
    seq![
        CircuitTableAir::<D>::Const(ConstAir::<D> { rows: proof.rows.at_spec(PrimitiveTable::Const), min_height: p.min_trace_height }),
        CircuitTableAir::<D>::Public(PublicAir::<D> { rows: proof.rows.at_spec(PrimitiveTable::Public), lanes: p.public_lanes, min_height: p.min_trace_height }),
        CircuitTableAir::<D>::Alu(AluAir::<D> { rows: proof.rows.at_spec(PrimitiveTable::Alu), lanes: p.alu_lanes, reduction: red, horner_k: p.horner_packed_steps, min_height: p.min_trace_height }),
    ]
}
impl BatchStarkProver {
    pub open spec fn entry_known(&self, e: NonPrimitiveTableEntry) -> bool { sp_index(self.non_primitive_provers@).dom().contains(e.op_type) }
    pub open spec fn entry_air<const D: usize>(&self, ext: u32, e: NonPrimitiveTableEntry) -> Result<DynamicAirEntry, ErrMsg> {
        sp_batch_air(self.non_primitive_provers@[sp_index(self.non_primitive_provers@)[e.op_type] as int], self.config, D, ext, e)
    }
    pub open spec fn dyn_airs<const D: usize>(&self, proof: BatchStarkProof, n: int) -> Seq<CircuitTableAir<D>> {
        Seq::new(n as nat, |j: int| CircuitTableAir::<D>::Dynamic(self.entry_air::<D>(proof.ext_degree as u32, proof.non_primitives@[j])->Ok_0))
    }
    pub open spec fn dyn_pvs(proof: BatchStarkProof, n: int) -> Seq<Seq<BaseVal>> { Seq::new(n as nat, |j: int| proof.non_primitives@[j].public_values@) }
    pub open spec fn entries_ok<const D: usize>(&self, proof: BatchStarkProof, n: int) -> bool {
        forall|j: int| 0 <= j < n ==> self.entry_known(#[trigger] proof.non_primitives@[j]) && self.entry_air::<D>(proof.ext_degree as u32, proof.non_primitives@[j]) is Ok
    }
}
pub open spec fn empty3() -> Seq<Seq<BaseVal>> { seq![Seq::<BaseVal>::empty(), Seq::<BaseVal>::empty(), Seq::<BaseVal>::empty()] }
} // verus!
'''


def unmap_iter_collect(f):
    """R6 (general): `VEC .iter() .map(|a| EXPR) .collect()` -> explicit loop pushing EXPR (EXPR kept verbatim)"""
    n = 0
    while True:
        m = re.search(r'([\w.]+)\s*\.iter\(\)\s*\.map(\()\|(\w+)\|\s*', f.body)
        if not m:
            break
        # closure body: up to the matching ')' of `.map(`
        open_ = m.start(2)
        close = match_brace(f.body, open_)
        expr = f.body[m.end():close]
        rest = f.body[close + 1:]
        m2 = re.match(r'\s*\.collect\(\)', rest)
        if not m2:
            break
        vec, a = m.group(1), m.group(3)
        new = f'{{ let mut v_ = Vec::new(); for q_ in 0..{vec}.len() {{ let {a} = &{vec}[q_]; let x_ = {expr}; v_.push(x_); }} v_ }}'
        f.body = f.body[:m.start()] + new + rest[m2.end():]
        n += 1
    if n:
        f.rewrites.append(('R6', f'{n}x `VEC.iter().map(|a| EXPR).collect()` -> loop pushing EXPR', ''))
    return f


def build():
    u = Unit('vrfy', ['C16', 'C10'])
    u.rlimit = 60
    u.assume('AIR constructors are determined by their arguments (ConstAir/PublicAir/AluAir::{new, from_reduction, with_*}); AluExtMulKind::resolve, the plugins and lookups_for_circuit_table_air are opaque functions of their arguments')
    u.assume('p3_batch_stark::verify_batch is outside the repository: its verdict is an uninterpreted function of everything it is handed; its precondition (lookup contexts = those of the AIRs) is the dependency contract')
    u.assume('Val<SC>, SC and the Box<dyn TableProver> are replaced by opaque stand-ins (R11 type substitution); RowCounts Index impl represented by RowCounts::at; error strings dropped (R8)')
    u.assume('collecting (op_type, i) pairs into a BTreeMap keeps the last index per type (sp_index)')
    u.text(PRELUDE)

    B = 'circuit-prover/src/batch_stark_prover.rs'
    v = u.extract(B, r'impl<SC> BatchStarkProver<SC>', 'verify', 'BatchStarkProver::verify')
    v.set_sig('R11', 'fn verify<const D: usize>(&self, proof: &BatchStarkProof, w_binomial: Option<BaseVal>, common: &CommonData) -> Result<(), BatchStarkProverError>')
    # R11 type substitution
    for old, new in ((r'Val<SC>', 'BaseVal'), (r'<SC, D>', '<D>'), (r'::<BaseVal, D>', '::<D>'), (r'Lookups<BaseVal>', 'Lookups'), (r'BTreeMap<NpoTypeId, usize>', 'TypeIndex')):
        k = v.body.count(old)
        if k:
            v.body = v.body.replace(old, new)
            v.rewrites.append(('R11', f'{k}x type `{old}`', new))
    v.rewrite_re('R6', r'let prover_index_by_type: TypeIndex = self\s*\.non_primitive_provers\s*\.iter\(\)\s*\.enumerate\(\)\s*\.map\(\|\(i, p\)\| \(p\.op_type\(\), i\)\)\s*\.collect\(\);',
                 'let prover_index_by_type: TypeIndex = TypeIndex::build(&self.non_primitive_provers);', min_count=1)
    v.rewrite_re('R11', r'proof\.rows\[PrimitiveTable::(\w+)\]', r'proof.rows.at(PrimitiveTable::\1)', min_count=3)
    v.rewrite_re('R6', r'pvs\.resize_with\(NUM_PRIMITIVE_TABLES, Vec::new\);', 'resize_with_new(&mut pvs, NUM_PRIMITIVE_TABLES);', min_count=0)
    v.rewrite_re('R5', r'for entry in &proof\.non_primitives \{', 'for e_ in 0..proof.non_primitives.len() { let entry = &proof.non_primitives[e_];', min_count=1)
    v.rewrite_re('R6', r'let pi = \*prover_index_by_type\.get\(&entry\.op_type\)\.ok_or_else\(\|\| \{.*?\}\)\?;',
                 'let pi = match prover_index_by_type.get(&entry.op_type) { Some(p_) => *p_, None => { return Err(BatchStarkProverError::Verify(errmsg())); } };',
                 min_count=1, flags_dotall=True)
    v.rewrite_re('R6', r'let air = plugin\s*\.batch_air_from_table_entry\((.*?)\)\s*\.map_err\(BatchStarkProverError::Verify\)\?;',
                 r'let air = match plugin.batch_air_from_table_entry(\1) { Ok(a_) => a_, Err(e_) => { return Err(BatchStarkProverError::Verify(e_)); } };',
                 min_count=1, flags_dotall=True)
    v.rewrite_re('R8', r'(p3_batch_stark::verify_batch\(.*?\))\s*\.map_err\(\|e\| BatchStarkProverError::Verify\(format!\("\{e:\?\}"\)\)\)',
                 r'(match \1 { Ok(()) => Ok(()), Err(e_) => Err(BatchStarkProverError::Verify(errmsg())) })', min_count=1, flags_dotall=True)
    # the preprocessed-binding check (fix 069e8d7): R5 / R6 / R8 forms, each applies where the idiom occurs
    v.rewrite_re('R5', r'for \((\w+), (\w+)\) in airs\.iter\(\)\.enumerate\(\) \{', r'for \1 in 0..airs.len() { let \2 = &airs[\1]; /*@widths*/', min_count=0)
    v.rewrite_re('R11', r'BaseAir::<BaseVal>::preprocessed_width\((\w+)\)', r'\1.preprocessed_width()', min_count=0)
    v.rewrite_re('R6', r'common\s*\.preprocessed\s*\.as_ref\(\)\s*\.and_then\(\|g\| g\.instances\.get\((\w+)\)\)\s*\.and_then\(\|meta\| meta\.as_ref\(\)\)\s*\.map_or\(([\w.]+), \|meta\| meta\.width\)', r'declared_width(common, \1, \2)', min_count=0)
    v.rewrite_re('R8', r'BatchStarkProverError::Verify\(format!\(\s*"preprocessed width mismatch[^"]*"\s*\)\)', 'BatchStarkProverError::Verify(errmsg())', min_count=0, flags_dotall=True)
    unmap_iter_collect(v)
    unmap_option(v)

    v.requires('table_count_fits', 'proof.non_primitives@.len() < 0x1000_0000')
    RED = 'sp_resolve(D, w_binomial, D == 5 && proof.alu_quintic_trinomial)'
    N = 'proof.non_primitives@.len() as int'
    AIRS = f'prim_airs::<D>(*proof, {RED}->Some_0) + self.dyn_airs::<D>(*proof, {N})'
    v.ensures('accepts_only_if_the_batch_verifier_accepts_the_rebuilt_airs_with_lookups_derived_from_them',
              f'''ret is Ok <==> ({RED} is Some && self.entries_ok::<D>(*proof, {N})
                && widths_ok::<D>(common.preprocessed, {AIRS})
                && batch_accepts::<D>(self.config, {AIRS}, proof.proof, empty3() + BatchStarkProver::dyn_pvs(*proof, {N}), common.preprocessed, lookups_of({AIRS}, self.config.zk)))''')
    v.ensures('a_binding_that_does_not_declare_the_widths_of_the_rebuilt_airs_is_rejected', f'ret is Ok ==> widths_ok::<D>(common.preprocessed, {AIRS})')
    WL = re.search(r'for (\w+) in 0\.\.airs\.len\(\) \{ let (\w+) = &airs\[\1\]; /\*@widths\*/', v.body)
    if WL:
        wi = WL.group(1)
        lo_ = v._loop_open(f'for {wi} in 0..airs.len()')
        from vf.extract import match_brace as mb_
        cl_ = mb_(v.body, lo_)
        v.body = v.body[:cl_ + 1] + ' proof { assert(widths_ok::<D>(common.preprocessed, airs@)); }' + v.body[cl_ + 1:]
        v.loop(f'for {wi} in 0..airs.len()', invariants=[
            ('ctx', f'Some(reduction) == {RED} && airs@ == prim_airs::<D>(*proof, reduction) + self.dyn_airs::<D>(*proof, {N}) && self.entries_ok::<D>(*proof, {N})'),
            ('widths_checked_so_far', f'forall|q_w: int| 0 <= q_w < {wi} ==> sp_declared_width(common.preprocessed, q_w) == sp_prep_width(#[trigger] airs@[q_w])')])
        v.rewrite_re('SPEC', r'(if declared != expected \{)', rf'\1 proof {{ assert(sp_declared_width(common.preprocessed, {wi} as int) != sp_prep_width(airs@[{wi} as int])); assert(!widths_ok::<D>(common.preprocessed, airs@)); }}', min_count=0)
    v.ensures('first_failing_entry_rejects', f'ret is Ok ==> {RED} is Some')
    v.at_start('let ghost ps = self.non_primitive_provers@;')
    # loop over the non-primitive entries
    LOOP = 'for e_ in 0..proof.non_primitives.len()'
    v.after('let pi = match prover_index_by_type.get(&entry.op_type) { Some(p_) => *p_, None => { return Err(BatchStarkProverError::Verify(errmsg())); } };',
            ' proof { lemma_index_in_range(ps, entry.op_type); }')
    PVS_IN_LOOP = 'pvs.push(' in v.body      # the per-table public values are collected inside the entry loop (absent => only the postcondition speaks about them)
    PVS_END = '''
                assert(pvs@[pvs@.len() - 1]@ =~= entry.public_values@);
                assert(pvs@.len() == pvs_b.len() + 1 && pvs_b.len() == 3 + j) by { assert(pvs_view(pvs_b).len() == (empty3() + BatchStarkProver::dyn_pvs(*proof, j)).len()); }
                assert forall|i: int| 0 <= i < pvs@.len() implies #[trigger] pvs_view(pvs@)[i] == (empty3() + BatchStarkProver::dyn_pvs(*proof, j + 1))[i] by {
                    if i < pvs_b.len() {
                        assert(pvs@[i] == pvs_b[i]);
                        assert(pvs_view(pvs_b)[i] == (empty3() + BatchStarkProver::dyn_pvs(*proof, j))[i]);
                    }
                }
                assert(pvs_view(pvs@) =~= empty3() + BatchStarkProver::dyn_pvs(*proof, j + 1)); // @@A:public_values_listed_per_table_in_order
''' if PVS_IN_LOOP else ''
    v.at_loop_end(LOOP, '''proof {
                let j = e_ as int;
                assert(*entry == proof.non_primitives@[j]);
                assert(airs@ =~= prim_airs::<D>(*proof, reduction) + self.dyn_airs::<D>(*proof, j + 1)); // @@A:air_of_each_entry_is_the_registered_plugins_reading_of_that_entry''' + PVS_END + '''
            }''')
    if PVS_IN_LOOP:
        v.after(LOOP + ' { let entry = &proof.non_primitives[e_];', ' let ghost pvs_b = pvs@;')
    v.loop(LOOP, invariants=[
        ('ctx', f'ps == self.non_primitive_provers@ && prover_index_by_type.m@ == sp_index(ps) && Some(reduction) == {RED}'),
        ('airs_so_far', 'airs@ == prim_airs::<D>(*proof, reduction) + self.dyn_airs::<D>(*proof, e_ as int)'),
    ] + ([('pvs_so_far', 'pvs_view(pvs@) == empty3() + BatchStarkProver::dyn_pvs(*proof, e_ as int)')] if PVS_IN_LOOP else []) + [
        ('entries_so_far', 'self.entries_ok::<D>(*proof, e_ as int)'),
    ])
    v.before(LOOP, '''proof {
            assert(airs@ =~= prim_airs::<D>(*proof, reduction) + self.dyn_airs::<D>(*proof, 0)); // @@A:primitive_airs_rebuilt_from_rows_packing_and_verifier_reduction
''' + ('            assert(pvs_view(pvs@) =~= empty3() + BatchStarkProver::dyn_pvs(*proof, 0));' if PVS_IN_LOOP else '') + '''
        }''')
    # the generated lookups loop
    v.loop('for q_ in 0..airs.len()', invariants=[
        ('derived_prefix', 'v_@.len() == q_ && forall|i: int| 0 <= i < q_ ==> #[trigger] v_@[i] == sp_lookups(airs@[i], self.config.zk)'),
    ] + ([('widths_checked', 'widths_ok::<D>(common.preprocessed, airs@)')] if WL else []))
    v.before('let effective_common', '''proof {
            assert(lookups@ =~= lookups_of(airs@, self.config.zk)); // @@A:lookup_contexts_are_derived_from_the_rebuilt_airs_not_read_from_the_proof
            assert(airs@.len() == pvs_view(pvs@).len());
''' + ('            assert(widths_ok::<D>(common.preprocessed, airs@));' if WL else '') + '''
        }''')
    # ---------------------------------------------------------------- prove[assemble]: which preprocessed binding the proof carries (C10 / C16)
    pv = u.extract(B, r'impl<SC> BatchStarkProver<SC>', 'prove', 'BatchStarkProver::prove[assemble]')
    TR = {'recomputed_data', 'effective_prover_data', 'stark_common', 'lanes_reduced'}
    project_on(pv, r'let lanes_reduced\b', TR, 'prefix: trace/AIR construction per table; dropped statements bind trace_refs, instances, the debug-lookup check, non_primitives, padded row counts, effective_packing')
    for old_, new_ in ((r'ProverData<SC>', 'ProverData'), (r'Val<SC>', 'BaseVal')):
        pv.body = pv.body.replace(old_, new_)
    unmap_iter_collect_general(pv)
    pv.rewrite_re('R6', r'(\w+)\s*\.map\(\|(\w+)\| ([^()|]+)\)\s*\.unwrap_or_else\(\|\| ((?:[^()]|\([^()]*\))*)\)', r'(match \1 { Some(\2) => \3, None => \4 })', min_count=0)
    PARAMS = [('prover_data', '&ProverData'), ('alu_trace_only_dummy', 'bool'), ('public_trace_only_dummy', 'bool'), ('packing', '&TablePacking'), ('trace_storage', '&Vec<TraceMatrix>'),
              ('air_storage', '&Vec<CircuitTableAir<D>>'), ('instances', 'StarkInstances'), ('effective_packing', 'TablePacking'), ('const_rows_padded', 'usize'), ('public_rows_padded', 'usize'),
              ('alu_rows_padded', 'usize'), ('w_binomial', 'Option<BaseVal>'), ('alu_quintic', 'bool'), ('non_primitives', 'Vec<NonPrimitiveTableEntry>')]
    bound = set(re.findall(r'\blet\s+(?:mut\s+)?(\w+)', pv.body))
    ps = [f'{n}: {t}' for n, t in PARAMS if re.search(r'(?<![.\w])' + n + r'\b', pv.body) and n not in bound]
    free = set(re.findall(r'(?<![.\w:])([a-z_][a-z_0-9]*)\b(?!\s*[(!:])', re.sub(r'\|[^|]*\|', ' ', pv.body))) - bound - {n for n, _ in PARAMS} - {'self', 'let', 'if', 'else', 'match', 'mut', 'as', 'for', 'in', 'true', 'false', 'usize', 'proof', 'pd', 'm', 'common', 'config', 'alu_variant', 'len', 'return'}
    free = {x for x in free if not re.search(r'\b' + x + r'\s*:', pv.body) and not re.search(r'\|[^|]*\b' + x + r'\b[^|]*\|', pv.body)}
    if free - {'i_', 'x_', 'v_', 'w'} - {x for x in free if x.endswith('_')}:
        raise ExtractError('BatchStarkProver::prove[assemble]: the projected tail reads prefix locals the slice signature does not know: ' + ', '.join(sorted(free)))
    pv.set_sig('R11', 'fn prove_assemble<const D: usize>(&self, ' + ', '.join(ps) + ') -> Result<BatchStarkProof, BatchStarkProverError>', sliced=True)
    pv.requires('realistic', 'self.config.zk <= 1')
    pv.ensures('the_proof_carries_the_preprocessed_binding_it_was_made_with',
               'ret matches Ok(p) ==> made_with(p.proof) == (p.stark_common.preprocessed, p.stark_common.lookups@)')
    for mm in re.finditer(r'for (\w+) in 0\.\.trace_storage\.len\(\)', pv.body):
        pv.loop(mm.group(0), invariants=[('t', 'self.config.zk <= 1')])
        break
    u.text('''verus! {
pub struct ProverData { pub common: CommonData }
pub struct TraceMatrix { pub h: usize }
impl TraceMatrix { pub fn height(&self) -> (r: usize) ensures r == self.h { self.h } }
#[verifier::external_body] pub fn log2_strict_usize(n: usize) -> (r: usize) ensures r < 64 { unimplemented!() }
pub struct StarkInstances { pub id: int }
impl ProverData {
    /// outside the repository (p3_batch_stark): SOME prover data for these AIRs and degrees
    #[verifier::external_body] pub fn from_airs_and_degrees<const D: usize>(cfg: &StarkCfg, airs: &Vec<CircuitTableAir<D>>, bits: &Vec<usize>) -> (r: ProverData) { unimplemented!() }
}
/// the preprocessed binding (commitment + lookup contexts) a batch proof was produced against
pub uninterp spec fn made_with(p: BatchProof) -> (Option<GlobalPreprocessed>, Seq<Lookups>);
pub mod p3_batch_stark_prove {
    use super::*;
    #[verifier::external_body]
    pub fn prove_batch(cfg: &StarkCfg, instances: &StarkInstances, pd: &ProverData) -> (r: BatchProof)
        ensures made_with(r) == (pd.common.preprocessed, pd.common.lookups@)
    { unimplemented!() }
}
/// contract PROVED in unit `serde16` (clone_common_data copies the binding); assumed here
#[verifier::external_body]
pub fn clone_common_data(c: &CommonData) -> (r: CommonData) ensures r.preprocessed == c.preprocessed, r.lookups@ == c.lookups@ { unimplemented!() }
impl RowCounts { #[verifier::external_body] pub fn new(a: [usize; 3]) -> (r: RowCounts) ensures r.0 == a { unimplemented!() } }
}''')
    pv.rewrite_re('R11', r'p3_batch_stark::prove_batch\(', 'p3_batch_stark_prove::prove_batch(', min_count=0)
    u.text('verus! {\nimpl BatchStarkProver {')
    u.emit(v, vis='')
    u.emit(pv, vis='')
    u.text('}\n}')
    return u
