"""check driver: property -> units (Verus) + harnesses (Kani) -> obligations -> verdict + evidence"""
import hashlib
import importlib
import json
import os
import re
import sys
import time

from . import kani as kani_mod
from .extract import ExtractError
from .registry import PROPS
from .verus import count_obligations, run_verus

VERIF = os.path.dirname(os.path.dirname(os.path.abspath(__file__)))
BUILD = os.environ.get('VERIF_BUILD') or os.path.join(VERIF, '.build')   # VERIF_BUILD: a private build directory for a parallel scratch run
CANARY_ID = '__canary.ensures[false]'


def load_known():
    p = os.path.join(VERIF, 'known_findings.json')
    if not os.path.exists(p):
        return []
    return json.load(open(p))['findings']


def build_unit(name):
    mod = importlib.import_module(f'units.{name}')
    importlib.reload(mod)
    return mod.build()


def verify_unit(name, tier, seed, workdir=None):
    """returns dict(status, failures[], ...) ; status in ok|undecided"""
    workdir = workdir or os.path.join(BUILD, 'units')
    t0 = time.time()
    try:
        u = build_unit(name)
        text = u.render()
    except Exception as e:  # ExtractError (lost anchor) or any failure to assemble the unit: undecided, never a violation
        return {'unit': name, 'status': 'undecided', 'reason': f'extraction: {e}', 'failures': [], 'fns': [], 'oblig': {'total': 0}, 'wall_s': time.time() - t0, 'assumptions': [], 'cmd': '', 'smt_ms': 0, 'verified': 0}
    oblig = count_obligations(text)
    rl = u.rlimit * (4 if tier == 'thorough' else 1)
    runs = []
    seeds = [None] if tier == 'quick' else [None, seed * 3 + 1, seed * 3 + 2]
    for s in seeds:
        r = run_verus(name if s is None else f'{name}_s{s}', text, workdir, rlimit=rl, seed=s)
        if s is not None:       # the per-seed file name must not leak into the obligation names that are compared across seeds
            for f_ in r['failures']:
                if f_['id'].startswith(f'{name}_s{s}.'):
                    f_['id'] = name + f_['id'][len(f'{name}_s{s}'):]
        runs.append(r)
    r = runs[0]
    res = {'unit': name, 'status': 'ok', 'reason': '', 'failures': r['failures'], 'cmd': r['cmd'], 'wall_s': time.time() - t0,
           'smt_ms': sum(x.get('total_ms', 0) for x in runs), 'verified': r['verified'], 'errors': r['errors'], 'oblig': oblig,
           'fns': [f.describe() for f in u.fns], 'assumptions': list(u.assumptions), 'path': r['path'], 'text': text,
           'scan': scan_assumptions(text), 'seeds': len(seeds)}
    for x in runs:
        if x['build_errors']:
            res['status'] = 'undecided'
            res['reason'] = 'unit does not build (construct outside the extractor/normaliser reach or changed signature): ' + x['build_errors'][0][:1500]
            return res
        if x['undecided']:
            res['status'] = 'undecided'
            res['reason'] = 'resource limit: ' + '; '.join(x['undecided'][:5])
            return res
    # stability across seeds (thorough): a clause failing under one seed only is "unstable", not a violation
    ids0 = {f['id'] for f in r['failures']}
    for x in runs[1:]:
        idsx = {f['id'] for f in x['failures']}
        if idsx != ids0:
            res['status'] = 'undecided'
            res['reason'] = f'unstable across z3 seeds: {sorted(ids0 ^ idsx)[:5]}'
            return res
    # vacuity guard
    if not any(f['id'].endswith(CANARY_ID) for f in r['failures']):
        res['status'] = 'undecided'
        res['reason'] = 'vacuity guard: the canary lemma `ensures false` verified — axioms inconsistent'
    return res


def scan_assumptions(text):
    out = []
    for i, l in enumerate(text.split('\n'), 1):
        s = l.strip()
        if s.startswith('//'):
            continue
        if re.search(r'\bassume\s*\(|\badmit\s*\(|external_body|\baxiom\s+fn\b|assume_specification|external_fn_specification|external_type_specification', s):
            out.append(f'L{i}: {s[:160]}')
    return out


def sanitize(s):
    h = hashlib.sha1(s.encode()).hexdigest()[:8]
    return re.sub(r'[^A-Za-z0-9_.-]+', '_', s)[:80] + '-' + h


def check_property(pid, tier, seed):
    t0 = time.time()
    spec = PROPS.get(pid)
    if spec is None:
        print(f'{pid}: not claimed (see MANIFEST.not_applicable)')
        return 2
    known = [k for k in load_known() if k['property'] == pid]
    open_known = [k for k in known if k.get('status') == 'open']
    known_obl = {}
    for k in open_known:
        for o in k['obligations']:
            known_obl[o] = k
    unit_results = []
    for un in spec.get('units', []):
        print(f'[{pid}] verus unit {un} ...', flush=True)
        unit_results.append(verify_unit(un, tier, seed))
    kani_results = []
    groups = {}
    for h in spec.get('kani', []):
        groups.setdefault((h['crate'], h.get('profile', 'debug')), []).append(h)
    for (crate, prof), hs in groups.items():
        print(f'[{pid}] kani {crate} [{prof}]: {", ".join(h["harness"] for h in hs)} ...', flush=True)
        rs = kani_mod.run_group(crate, prof, hs)
        for h in hs:
            r = rs[h['harness']]
            if r['failures']:
                r = kani_mod.run_harness(h, tier)      # re-run alone with concrete playback
            kani_results.append(r)

    undecided = [f'{r["unit"]}: {r["reason"]}' for r in unit_results if r['status'] != 'ok']
    undecided += [f'kani {r["harness"]}: {r["reason"]}' for r in kani_results if r['status'] == 'undecided']

    failures = []
    for r in unit_results:
        for f in r['failures']:
            if f['id'].endswith(CANARY_ID):
                continue
            only = (spec.get('only') or {}).get(r['unit'])
            if only and not re.search(only, f['id']):
                continue
            failures.append({'id': f['id'], 'backend': 'verus', 'message': f['message'], 'detail': f['rendered'], 'unit': r['unit'], 'input': None})
    for r in kani_results:
        for f in r['failures']:
            failures.append({'id': f['id'], 'backend': 'kani', 'message': f['message'], 'detail': f['detail'], 'unit': r['harness'], 'input': f.get('input')})
    # obligations irrelevant for this property (a unit may serve several)
    flt = spec.get('filter')
    if flt:
        failures = [f for f in failures if re.search(flt, f['id'])]
    excl = spec.get('exclude')
    if excl:
        failures = [f for f in failures if not re.search(excl, f['id'])]

    viol, kn_hit = [], {}
    for f in failures:
        k = known_obl.get(f['id'])
        if k is not None:
            kn_hit.setdefault(k['id'], (k, []))[1].append(f['id'])
        else:
            viol.append(f)
    for kid, (k, obs) in kn_hit.items():
        print(f'KNOWN-FINDING: property={pid} {k["id"]}: {k["what"]} [failing obligation(s): {", ".join(obs)}]')
    for k in open_known:
        if k['id'] not in kn_hit and not undecided:
            print(f'NOTE: known finding {k["id"]} did not reproduce on this tree (its obligations verified)')

    # ---- replay files
    rdir = os.path.join(BUILD if os.environ.get('VERIF_BUILD') else VERIF, 'replays', pid)
    lines = []
    for f in viol:
        os.makedirs(rdir, exist_ok=True)
        rp = os.path.join(rdir, sanitize(f['id']) + '.json')
        rec = {'property': pid, 'obligation': f['id'], 'backend': f['backend'], 'message': f['message'],
               'verifier_output': f['detail'], 'failing_input': f['input'],
               'replay': (f['input'] or {}).get('replay_cmd') if f['input'] else None,
               'note': 'obligation verified on the unchanged tree and fails on the current working tree of /repo'}
        json.dump(rec, open(rp, 'w'), indent=1)
        tail = '' if f['input'] else ' no-failing-input-found'
        lines.append(f'VIOLATION property={pid} replay={rp}{tail}')

    # ---- evidence
    n_obl = sum(r['oblig']['total'] for r in unit_results) + sum(r['n_checks'] for r in kani_results)
    n_failed = len(failures)
    n_known = sum(len(v[1]) for v in kn_hit.values())
    canaries = len(unit_results)
    samples = []
    for r in unit_results:
        t = r.get('text', '')
        for l in t.split('\n'):
            m = re.search(r'^\s*(.*?),\s*//\s*@@E:(\S+)', l)
            if m and len(samples) < 12:
                samples.append(f'{r["unit"]}: ensures[{m.group(2)}] {m.group(1)}')
    for r in kani_results:
        samples.append(f'kani {r["harness"]} ({r["profile"]}): {r["n_checks"]} checks, {r["status"]}')
    fns = [f for r in unit_results for f in r['fns']]
    ev = {
        'property_id': pid, 'tier': tier, 'seed': seed, 'level': 'proof',
        'coverage': {
            'obligations': max(n_obl - n_known, 0), 'discharged': max(n_obl - n_known - len(viol), 0),
            'known_finding_obligations': n_known,
            'obligation_breakdown': {r['unit']: r['oblig'] for r in unit_results},
            'checker_cmd': ' ; '.join([r['cmd'] for r in unit_results if r['cmd']] + [r['cmd'] for r in kani_results]),
            'trusted_base': spec.get('trusted_base', []) + ['Verus 0.2026.09.13 + Z3', 'vstd specifications of Vec/slice/Option/HashMap',
                                                          'extractor + rewrite rules listed per function (vf/extract.py, vf/unit.py)'],
            'functions_under_contract': fns,
            'backends': {'verus': {'units': [r['unit'] for r in unit_results], 'functions_verified': sum(r['verified'] for r in unit_results),
                                   'solver_ms': sum(r['smt_ms'] for r in unit_results)},
                         'kani': {'harnesses': [{'name': r['harness'], 'profile': r['profile'], 'checks': r['n_checks'], 'status': r['status'],
                                                 'bounded': r.get('bounded'), 'seconds': round(r['wall_s'], 1)} for r in kani_results]}},
            'bounded': [f'{r["harness"]}: {r["bounded"]}' for r in kani_results if r.get('bounded')],
            'vacuity_canaries_failed_as_required': sum(1 for r in unit_results if r['status'] == 'ok'),
            'samples': samples or ['(none)'],
            'undecided': undecided,
            'known_findings_reported': sorted(kn_hit.keys()),
            'violating_obligations': [f['id'] for f in viol],
        },
        'assumptions': sorted(set(a for r in unit_results for a in r['assumptions'])
                              | set('unit scan: ' + a for r in unit_results for a in r.get('scan', []))
                              | set(spec.get('assumptions', []))),
        'wall_s': round(time.time() - t0, 2),
        'violations': len(viol),
    }
    # VERIF_SCRATCH=1 (experiments on a deliberately changed tree): keep the committed evidence untouched
    evdir = os.path.join(BUILD, 'scratch-evidence') if os.environ.get('VERIF_SCRATCH') else os.path.join(VERIF, 'evidence')
    os.makedirs(evdir, exist_ok=True)
    json.dump(ev, open(os.path.join(evdir, f'{pid}.json'), 'w'), indent=1)

    for l in lines:
        print(l)
    if lines:
        return 1
    if undecided:
        for u in undecided:
            print(f'UNDECIDED property={pid}: {u[:3000]}')
        return 2
    print(f'[{pid}] held: {ev["coverage"]["discharged"]}/{ev["coverage"]["obligations"]} obligations discharged '
          f'({len(fns)} functions under contract, {n_known} known-finding obligations) in {ev["wall_s"]}s')
    return 0


def dev_unit(name, keep):
    r = verify_unit(name, 'quick', 0)
    print(f'unit {name}: status={r["status"]} {r["reason"][:4000]}')
    print(f'  verified={r.get("verified")} errors={r.get("errors")} obligations={r["oblig"]} wall={r["wall_s"]:.1f}s')
    for f in r['failures']:
        print('  FAIL', f['id'])
        if not f['id'].endswith(CANARY_ID):
            print('\n'.join('      ' + l for l in f['rendered'].split('\n')[:14]))
    return 0


def main(argv):
    if not argv:
        print(__doc__)
        return 2
    if argv[0] == '--unit':
        return dev_unit(argv[1], '--keep' in argv)
    if argv[0] == '--replay':
        rec = json.load(open(argv[1]))
        print(json.dumps(rec, indent=1))
        if rec.get('replay'):
            return os.system(rec['replay']) >> 8
        return 0
    pid = argv[0]
    tier = argv[1] if len(argv) > 1 else os.environ.get('VERIF_TIER', 'quick')
    seed = int(os.environ.get('VERIF_SEED', '0') or 0)
    return check_property(pid, tier, seed)
