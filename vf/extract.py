"""Mechanical extraction of real Rust functions from /repo.

Nothing here knows about any particular function: it locates an item by
(file, container-regex, fn name), cuts its text out of the *current* working
tree, resolves cfg attributes, erases comments/attributes, and hands the
signature and body to the unit renderer.  Every transformation applied is
recorded in `Extracted.log` so the evidence can list it.
"""
import hashlib
import os
import re

REPO = os.environ.get("VERIF_REPO", "/repo")


class ExtractError(Exception):
    """Lost anchor / construct outside the extractor's reach (exit 2, never a violation)."""


def strip_comments(src: str) -> str:
    """Replace comments by spaces (newlines kept so line numbers survive).
    Handles //, /* */ (nested), string/char literals, raw strings and lifetimes."""
    out = []
    i, n = 0, len(src)
    while i < n:
        c = src[i]
        if c == '/' and i + 1 < n and src[i + 1] == '/':
            j = src.find('\n', i)
            if j < 0:
                j = n
            out.append(' ' * (j - i))
            i = j
        elif c == '/' and i + 1 < n and src[i + 1] == '*':
            depth, j = 1, i + 2
            while j < n and depth:
                if src.startswith('/*', j):
                    depth += 1
                    j += 2
                elif src.startswith('*/', j):
                    depth -= 1
                    j += 2
                else:
                    j += 1
            out.append(''.join(ch if ch == '\n' else ' ' for ch in src[i:j]))
            i = j
        elif c == '"':
            j = i + 1
            while j < n and src[j] != '"':
                j += 2 if src[j] == '\\' else 1
            out.append(src[i:j + 1])
            i = j + 1
        elif c == 'r' and re.match(r'r#*"', src[i:i + 8]) and (i == 0 or not (src[i - 1].isalnum() or src[i - 1] == '_')):
            m = re.match(r'r(#*)"', src[i:])
            close = '"' + m.group(1)
            j = src.find(close, i + len(m.group(0)))
            j = n if j < 0 else j + len(close)
            out.append(src[i:j])
            i = j
        elif c == "'":
            # char literal or lifetime
            m = re.match(r"'(\\.[^']*|[^\\'])'", src[i:])
            if m:
                out.append(m.group(0))
                i += len(m.group(0))
            else:
                out.append(c)
                i += 1
        else:
            out.append(c)
            i += 1
    return ''.join(out)


def match_brace(s: str, i: int) -> int:
    """s[i] is an opening bracket; return index of the matching close (skips string literals)."""
    pairs = {'{': '}', '(': ')', '[': ']'}
    op = s[i]
    cl = pairs[op]
    depth = 0
    n = len(s)
    while i < n:
        c = s[i]
        if c == '"':
            i += 1
            while i < n and s[i] != '"':
                i += 2 if s[i] == '\\' else 1
        elif c == "'":
            m = re.match(r"'(\\.[^']*|[^\\'])'", s[i:])
            if m:
                i += len(m.group(0)) - 1
        elif c == op:
            depth += 1
        elif c == cl:
            depth -= 1
            if depth == 0:
                return i
        i += 1
    raise ExtractError("unbalanced bracket")


def _headers(src: str):
    """Yield (header_text, open_idx, close_idx, depth) for every `{...}` block whose
    header starts with impl/trait/mod (item containers)."""
    res = []
    stack = []
    last_boundary = [0]
    i, n = 0, len(src)
    while i < n:
        c = src[i]
        if c == '"':
            i += 1
            while i < n and src[i] != '"':
                i += 2 if src[i] == '\\' else 1
        elif c == "'":
            m = re.match(r"'(\\.[^']*|[^\\'])'", src[i:])
            if m:
                i += len(m.group(0)) - 1
        elif c == '{':
            hdr = src[last_boundary[-1]:i]
            stack.append((hdr, i))
            last_boundary.append(i + 1)
        elif c == '}':
            if stack:
                hdr, oi = stack.pop()
                last_boundary.pop()
                res.append((hdr, oi, i, len(stack)))
            last_boundary[-1] = i + 1
        elif c == ';':
            last_boundary[-1] = i + 1
        i += 1
    return res


class Extracted:
    def __init__(self):
        self.file = self.container = self.name = None
        self.line = 0
        self.raw = ''           # original text incl. comments (for sha)
        self.sha256 = ''
        self.sig = ''           # `fn name<..>(..) -> T where ..` (comments removed)
        self.body = ''          # `{ ... }`
        self.log = []           # [(rule, detail)]


def resolve_cfg(text: str, cfgs: dict, log: list) -> str:
    """R10: resolve `#[cfg(X)]` / `#[cfg(not(X))]` on statements/blocks for the X in cfgs.
    Unknown cfg predicates are left for the caller (they make the unit fail to build -> exit 2)."""
    pat = re.compile(r'#\[cfg\((not\()?\s*([a-z_]+(?:\s*=\s*"[^"]*")?)\s*\)?\)\]')
    while True:
        m = None
        for mm in pat.finditer(text):
            key = mm.group(2).replace(' ', '')
            if key in cfgs:
                m = mm
                break
        if not m:
            return text
        key = m.group(2).replace(' ', '')
        keep = cfgs[key] != bool(m.group(1))
        j = m.end()
        # the attributed item: further attributes, then a block / `unsafe {}` / statement
        k = j
        while True:
            ws = re.match(r'\s*', text[k:]).end()
            k += ws
            if text.startswith('#[', k):
                k = match_brace(text, k + 1) + 1
                continue
            break
        mm = re.match(r'(unsafe\s*)?\{', text[k:])
        # argument / parameter position: the nearest unmatched opener before the attribute is `(`
        depth, b, in_args = 0, m.start() - 1, False
        while b >= 0:
            if text[b] in ')}]':
                depth += 1
            elif text[b] in '({[':
                if depth == 0:
                    in_args = text[b] == '('
                    break
                depth -= 1
            b -= 1
        if in_args:
            e = k
            while e < len(text):
                ch = text[e]
                if ch in '({[':
                    e = match_brace(text, e)
                elif ch == ',':
                    e += 1
                    break
                elif ch == ')':
                    break
                e += 1
            end = e
        elif mm:
            end = match_brace(text, k + mm.end() - 1) + 1
        else:
            # statement: up to `;` at depth 0, or a trailing block expression
            d = 0
            e = k
            while e < len(text):
                ch = text[e]
                if ch in '({[':
                    e = match_brace(text, e)
                elif ch == ';':
                    e += 1
                    break
                elif ch == '}':
                    break
                e += 1
            end = e
        log.append(('R10', f'cfg({"not " if m.group(1) else ""}{key}) -> {"kept" if keep else "removed"}'))
        if keep:
            text = text[:m.start()] + text[j:]
        else:
            text = text[:m.start()] + text[end:]


ATTR_RE = re.compile(r'#\[(inline(\([a-z]+\))?|allow\([^\]]*\)|instrument(\([^\]]*\))?|must_use|track_caller|doc[^\]]*|expect\([^\]]*\))\]\s*')


def extract_fn(relpath: str, container: str, name: str, cfgs=None) -> Extracted:
    """container: regex matched against the enclosing impl/trait header ('' = free fn at file/mod level)."""
    cfgs = cfgs if cfgs is not None else {'debug_assertions': True, 'test': False}
    path = os.path.join(REPO, relpath)
    try:
        orig = open(path).read()
    except OSError as e:
        raise ExtractError(f"cannot read {relpath}: {e}")
    src = strip_comments(orig)
    blocks = _headers(src)
    cands = []
    for m in re.finditer(r'\bfn\s+' + re.escape(name) + r'\b', src):
        pos = m.start()
        encl = [(h, o, c, d) for (h, o, c, d) in blocks if o < pos < c]
        encl.sort(key=lambda t: t[1])
        # skip test modules
        if any(re.search(r'#\[cfg\(test\)\]\s*(pub\s+)?mod\b', h) or re.search(r'\bmod\s+tests?\b', h) for (h, _, _, _) in encl):
            continue
        items = [h for (h, _, _, _) in encl if re.search(r'\b(impl|trait)\b', h) and not re.search(r'\bfn\b', h)]
        fns = [h for (h, _, _, _) in encl if re.search(r'\bfn\b', h)]
        if fns:
            continue  # nested fn inside another fn body
        if container == '':
            if items:
                continue
        else:
            if not items or not re.search(container, ' '.join(items[-1].split())):
                continue
        cands.append(pos)
    if len(cands) != 1:
        raise ExtractError(f"lost anchor: {relpath} :: /{container}/ :: fn {name} matched {len(cands)} items")
    pos = cands[0]
    # find body open brace: first `{` at paren/bracket depth 0
    i = pos
    while True:
        c = src[i]
        if c in '([':
            i = match_brace(src, i)
        elif c == '{':
            break
        elif c == ';':
            raise ExtractError(f"{name}: declaration without body")
        i += 1
    close = match_brace(src, i)
    ex = Extracted()
    ex.file, ex.container, ex.name = relpath, container, name
    ex.line = src.count('\n', 0, pos) + 1
    ex.raw = orig[pos:close + 1]
    ex.sha256 = hashlib.sha256(ex.raw.encode()).hexdigest()
    ex.sig = ' '.join(resolve_cfg(src[pos:i], cfgs, ex.log).split())
    body = src[i:close + 1]
    body = resolve_cfg(body, cfgs, ex.log)
    nb = ATTR_RE.sub('', body)
    if nb != body:
        ex.log.append(('R8', 'erased #[inline]/#[allow]/#[instrument] attributes'))
    ex.body = normalize_continue(nb, ex.log)
    ex.log.append(('R0', 'comments and doc comments erased'))
    return ex


def extract_item(relpath: str, pattern: str) -> str:
    """Extract a non-fn item (struct/enum/const) whose header matches regex `pattern`; returns text through its closing brace or `;`."""
    path = os.path.join(REPO, relpath)
    src = strip_comments(open(path).read())
    ms = list(re.finditer(pattern, src))
    if len(ms) != 1:
        raise ExtractError(f"lost anchor: {relpath} :: item /{pattern}/ matched {len(ms)}")
    i = ms[0].start()
    j = ms[0].end()
    while src[j] not in '{;':
        if src[j] in '([':
            j = match_brace(src, j)
        j += 1
    if src[j] == '{':
        j = match_brace(src, j)
    return src[i:j + 1]


# ------------------------------------------------------------------------------------------------
# R3: `continue` inside `for` bodies (Verus: "for-loops do not yet support continue")
#     if C { S; continue; } REST      ==>      if C { S; /*continue*/ } else { REST }
# applied to top-level statements of every `for` body, repeatedly; anything else containing
# `continue` is left alone (and makes the unit fail to build -> undecided).
# ------------------------------------------------------------------------------------------------
def _split_stmts(block: str):
    """split the inside of a `{...}` block into top-level statements (text chunks, order preserved)"""
    out, depth, start, i, n = [], 0, 0, 0, len(block)
    while i < n:
        c = block[i]
        if c == '"':
            i += 1
            while i < n and block[i] != '"':
                i += 2 if block[i] == '\\' else 1
        elif c == "'":
            m = re.match(r"'(\\.[^']*|[^\\'])'", block[i:])
            if m:
                i += len(m.group(0)) - 1
        elif c in '([{':
            depth += 1
        elif c in ')]}':
            depth -= 1
            if c == '}' and depth == 0:
                head = block[start:i].lstrip()
                blocklike = re.match(r"(if|match|for|while|loop|unsafe|proof|\{|'\w+\s*:)", head) is not None
                rest = block[i + 1:].lstrip()
                if blocklike and not re.match(r'(else\b|\.|\?|;|\)|,|==|&&|\|\|)', rest):
                    out.append(block[start:i + 1])
                    start = i + 1
        elif c == ';' and depth == 0:
            out.append(block[start:i + 1])
            start = i + 1
        i += 1
    if block[start:].strip():
        out.append(block[start:])
    return out


def _r3_block(inner: str, log: list) -> str:
    stmts = _split_stmts(inner)
    for k, st in enumerate(stmts):
        s = st.strip()
        # let PAT = E else { continue; }; REST   ==>   if let PAT = E { REST }
        ml = re.match(r'let\s+(.*?)\s*=\s*([^=].*?)\s*else\s*\{\s*continue\s*;\s*\}\s*;$', s, flags=re.S)
        if ml and '=' not in ml.group(1).replace('=>', ''):
            rest = _r3_block(''.join(stmts[k + 1:]), log)
            log.append(('R3', 'let PAT = E else { continue; }; REST  ->  if let PAT = E { REST }'))
            return ''.join(stmts[:k]) + '\nif let ' + ml.group(1) + ' = ' + ml.group(2) + ' {' + rest + '}\n'
        m = re.match(r'if\b', s)
        if not m or not re.search(r'continue\s*;\s*\}\s*$', s):
            continue
        # locate the if's block: the last top-level `{...}`; no `else` allowed
        ob = None
        j = 0
        depth = 0
        while j < len(s):
            if s[j] in '([':
                j = match_brace(s, j)
            elif s[j] == '{':
                ob = j
                j = match_brace(s, j)
                break
            j += 1
        if ob is None or s[j + 1:].strip():
            continue
        blk = s[ob + 1:j]
        blk2 = re.sub(r'continue\s*;\s*$', '/*continue*/ ', blk)
        rest = _r3_block(''.join(stmts[k + 1:]), log)
        log.append(('R3', 'if C { ..; continue; } REST  ->  if C { .. } else { REST }'))
        return ''.join(stmts[:k]) + '\n' + s[:ob] + '{' + blk2 + '} else {' + rest + '}\n'
    return inner


def _strip_nested_loops(s: str) -> str:
    """text of s with the bodies of nested loops and closures blanked (a `continue` there belongs to that loop)"""
    out = s
    pos = 0
    while True:
        m = re.search(r'\b(for\b[^{;]*?\bin\b|while\b|loop\b)|\|[^|{};]*\|\s*(?=\{)', out[pos:])
        if not m:
            return out
        i = pos + m.end()
        while i < len(out) and out[i] != '{':
            if out[i] in '([':
                i = match_brace(out, i)
            if out[i] == ';':
                break
            i += 1
        if i >= len(out) or out[i] != '{':
            pos = pos + m.end()
            continue
        j = match_brace(out, i)
        out = out[:i + 1] + ' ' * (j - i - 1) + out[j:]
        pos = j


def _has_own_continue(s: str) -> bool:
    return re.search(r'\bcontinue\b', _strip_nested_loops(s).replace('/*continue*/', '')) is not None


def _r3_flag_stmt(s: str, flag: str, log: list) -> str:
    """rewrite the `continue`s of ONE statement: `continue;` -> `FLAG = true;`, nested blocks (if / else / match arms / bare blocks) recursively"""
    st = s.strip()
    if re.fullmatch(r'continue\s*;', st):
        return f' {flag} = true; '
    if re.match(r'(for|while|loop)\b', st):
        return s
    out, i = '', 0
    blanked = _strip_nested_loops(s)
    while i < len(s):
        c = s[i]
        if c == '{' and blanked[i] == '{':
            j = match_brace(s, i)
            inner = s[i + 1:j]
            if _has_own_continue(inner):
                head = s[:i].rstrip()
                if re.search(r'\bmatch\b[^{};]*$', head) and not re.search(r'=>\s*$', head):
                    # a match body: arms `P => continue,` and `P => { .. }`
                    inner2 = re.sub(r'=>\s*continue\s*,', f'=> {{ {flag} = true; }}', inner)
                    inner2 = _r3_flag_stmt(inner2, flag, log) if _has_own_continue(inner2) else inner2
                    out += '{' + inner2 + '}'
                else:
                    out += '{' + _r3_flag_block(inner, flag, log) + '}'
            else:
                out += s[i:j + 1]
            i = j + 1
            continue
        out += c
        i += 1
    return out


def _r3_flag_block(inner: str, flag: str, log: list) -> str:
    stmts = _split_stmts(inner)
    for k, st in enumerate(stmts):
        if not _has_own_continue(st):
            continue
        s2 = _r3_flag_stmt(st, flag, log)
        rest = ''.join(stmts[k + 1:])
        tail = ''
        if rest.strip():
            tail = f' if !{flag} {{ ' + _r3_flag_block(rest, flag, log) + ' } '
        return ''.join(stmts[:k]) + s2 + tail
    return inner


def normalize_continue(body: str, log: list) -> str:
    """apply R3 to every `for` loop body in the function body"""
    out = body
    pos = 0
    while True:
        m = re.search(r'\bfor\b[^{;]*?\bin\b', out[pos:])
        if not m:
            return out
        i = pos + m.end()
        # find the loop's opening brace
        while i < len(out) and out[i] != '{':
            if out[i] in '([':
                i = match_brace(out, i)
            i += 1
        if i >= len(out):
            return out
        j = match_brace(out, i)
        inner = out[i + 1:j]
        if 'continue' in inner:
            new_inner = _r3_block(inner, log)
            if _has_own_continue(new_inner):
                # R3b (general): a `continue` nested in if / else / match arms -> skip flag; everything after a statement that may set it runs under `if !flag`
                flag = 'skip_'
                new_inner = f' let mut {flag} = false; ' + _r3_flag_block(new_inner, flag, log)
                log.append(('R3', 'nested `continue` -> `skip_ = true;` + the statements after it guarded by `if !skip_ { .. }`'))
            out = out[:i + 1] + new_inner + out[j:]
        pos = i + 1
