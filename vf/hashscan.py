"""Type-level scan for traversals of keyed containers (used by unit `hashord`, C18).
For every function of the listed source files: which receivers are hash / ordered containers (parameters, locals, fields of `self`, unambiguous field names),
where they are traversed, and what consumes the traversal.  A traversal is `order-free` when its consumer provably does not depend on the visiting order
(rules below), otherwise it is `ordered`: its result inherits the container's iteration order."""
import os
import re

from .extract import strip_comments, match_brace, REPO

KINDS = ('HashMap', 'HashSet', 'BTreeMap', 'BTreeSet')
TRAV_METHODS = ('iter', 'iter_mut', 'keys', 'values', 'values_mut', 'into_iter', 'drain', 'into_keys', 'into_values')
_TY = r'(?:&\s*(?:\'\w+\s+)?(?:mut\s+)?)?(?:Option<\s*)?(?:[\w:]*::)?(HashMap|HashSet|BTreeMap|BTreeSet)\s*<'
# terminal adaptors / consumers that forget the visiting order
FREE_TERMINALS = [r'\.sum(?:::<[^>]*>)?\(\)', r'\.count\(\)', r'\.any\(', r'\.all\(', r'\.max\(\)', r'\.min\(\)', r'\.len\(\)', r'\.is_empty\(\)',
                  r'\.sorted(?:_unstable)?(?:_by(?:_key)?)?\(', r'\.collect::<\s*(?:[\w:]*::)?(?:HashMap|HashSet|BTreeMap|BTreeSet)\b', r'\.for_each\(']
# statements of a loop body that commute with each other
FREE_STMTS = [r'^[\w.\[\]&*]+\s*\.\s*(?:insert|remove|entry|sort(?:_unstable)?(?:_by(?:_key)?)?|push_str|extend)\s*\(', r'^tracing::\w+!', r'^(?:debug_)?assert(?:_eq|_ne)?!',
              r'^[\w.\[\]*]+\s*(?:\+=|\|=|&=|\*=)', r'^[\w.\[\]*]+\s*=\s*[\w.\[\]*]+\s*\.\s*(?:max|min)\(', r'^let\s', r'^if\s', r'^\}?\s*else\b', r'^continue\b', r'^[\w.]+\s*\.\s*validate\(\)\?',
              r'^return_err_$', r'^\}$', r'^\{$', r'^$']


def _fns(src):
    """(name, header_start, body_open, body_close) of every fn with a body, outermost first"""
    out = []
    for m in re.finditer(r'\bfn\s+(\w+)', src):
        i = m.end()
        depth = 0
        while i < len(src):
            ch = src[i]
            if ch in '(<[':
                depth += 1
            elif ch in ')>]':
                if not (ch == '>' and src[i - 1] == '-'):
                    depth -= 1
            elif ch == '{' and depth <= 0:
                break
            elif ch == ';' and depth <= 0:
                i = -1
                break
            i += 1
        if i < 0 or i >= len(src):
            continue
        try:
            c = match_brace(src, i)
        except Exception:
            continue
        out.append((m.group(1), m.start(), i, c))
    return out


def _structs(src):
    d = {}
    for m in re.finditer(r'\bstruct\s+(\w+)[^;{(]*\{', src):
        o = m.end() - 1
        try:
            c = match_brace(src, o)
        except Exception:
            continue
        fields = {}
        for fm in re.finditer(r'(?:pub(?:\([^)]*\))?\s+)?(\w+)\s*:\s*([^,\n]+)', src[o + 1:c]):
            tm = re.match(_TY, fm.group(2).strip())
            fields[fm.group(1)] = tm.group(1) if tm else None
        d[m.group(1)] = fields
    return d


def _impl_of(src, pos):
    best = None
    for m in re.finditer(r'\bimpl\b[^;{]*?\b(\w+)\s*(?:<[^{;]*?>)?\s*(?:where[^{;]*)?\{', src):
        o = m.end() - 1
        if o > pos:
            break
        try:
            c = match_brace(src, o)
        except Exception:
            continue
        if o < pos < c:
            best = re.sub(r'\s+', ' ', m.group(0))
    if not best:
        return None
    m = re.search(r'\bfor\s+(\w+)', best)
    if m:
        return m.group(1)
    m = re.search(r'\bimpl\s*(?:<[^>]*>)?\s*(\w+)', best)
    return m.group(1) if m else None


def _stmt_end(s, i):
    depth = 0
    while i < len(s):
        ch = s[i]
        if ch in '({[':
            depth += 1
        elif ch in ')}]':
            depth -= 1
            if depth < 0:
                return i
        elif ch == ';' and depth == 0:
            return i
        i += 1
    return i


def _expr_end(s, i):
    """end of the expression starting at i: the `,` / `;` / closing bracket at nesting depth 0"""
    depth = 0
    while i < len(s):
        ch = s[i]
        if ch in '({[':
            depth += 1
        elif ch in ')}]':
            depth -= 1
            if depth < 0:
                return i
        elif ch in ',;' and depth == 0:
            return i
        i += 1
    return i


def _split_stmts(body):
    out, depth, cur = [], 0, ''
    for ch in body:
        if ch in '({[':
            depth += 1
        elif ch in ')}]':
            depth -= 1
        if (ch == ';' and depth == 0) or (ch in '{}' and depth <= 1 and ch == '{' and False):
            out.append(cur.strip())
            cur = ''
        else:
            cur += ch
    if cur.strip():
        out.append(cur.strip())
    return out


def _drop_err_returns(body):
    """`return Err(..)` only decides WHICH error is reported: cut the (balanced) argument"""
    while True:
        m = re.search(r'return Err(\()', body)
        if not m:
            return body
        try:
            c = match_brace(body, m.start(1))
        except Exception:
            return body
        body = body[:m.start()] + 'return_err_' + body[c + 1:]


def _body_free(body):
    """every statement of the loop body (nested blocks flattened) commutes"""
    flat = re.sub(r'[{}]', ';', _drop_err_returns(body))
    for st in [x.strip() for x in flat.split(';')]:
        st = ' '.join(st.split())
        if not any(re.match(p, st) for p in FREE_STMTS):
            return False, st
    return True, ''


def scan(files):
    srcs = {}
    structs = {}
    for rel in files:
        p = os.path.join(REPO, rel)
        s = strip_comments(open(p).read())
        m = re.search(r'#\[cfg\(test\)\]\s*(?:pub\s+)?mod\s+\w+\s*\{', s)
        if m:
            s = s[:m.start()]
        srcs[rel] = s
        structs.update(_structs(s))
    fieldkinds = {}
    for st, fs in structs.items():
        for f, k in fs.items():
            fieldkinds.setdefault(f, set()).add(k)
    sites = []
    for rel, s in srcs.items():
        fns = _fns(s)
        for (name, hs, bo, bc) in fns:
            if any(o < bo and bc < c for (_, _, o, c) in fns):      # nested fn: handled as part of its own entry
                pass
            sig, body = s[hs:bo], s[bo:bc + 1]
            recv = {}
            for m in re.finditer(r'(\w+)\s*:\s*' + _TY, sig):
                recv[m.group(1)] = m.group(2)
            for m in re.finditer(r'\blet\s+(?:mut\s+)?(\w+)\s*:\s*' + _TY, body):
                recv[m.group(1)] = m.group(2)
            for m in re.finditer(r'\blet\s+(?:mut\s+)?(\w+)\s*(?::[^=;]*)?=\s*(?:[\w:]*::)?(HashMap|HashSet|BTreeMap|BTreeSet)\s*(?:::<[^;]*?>)?::\w+\s*\(', body):
                recv[m.group(1)] = m.group(2)
            for m in re.finditer(r'\blet\s+(?:mut\s+)?(\w+)\s*(?::[^=;]*)?=[^;]*?\.collect::<\s*(?:[\w:]*::)?(HashMap|HashSet|BTreeMap|BTreeSet)\b', body):
                recv.setdefault(m.group(1), m.group(2))
            st = _impl_of(s, hs)
            selff = {f: k for f, k in structs.get(st, {}).items() if k} if st else {}
            cands = [(n, k, r'(?<![\w.])' + re.escape(n)) for n, k in recv.items()]
            cands += [('self.' + f, k, r'(?<![\w.])self\s*\.\s*' + re.escape(f)) for f, k in selff.items()]
            for f, ks in fieldkinds.items():
                if len(ks) == 1 and None not in ks:
                    cands.append(('_.' + f, next(iter(ks)), r'(?<![\w.])(?!self\b)\w+(?:\s*\.\s*\w+)*\s*\.\s*' + re.escape(f)))
            for (n, kind, rx) in cands:
                for m in re.finditer(r'for\s+([^;{}]*?)\s+in\s+(&\s*(?:mut\s+)?)?' + rx + r'\b(?!\s*\.)\s*(\{)', body):
                    o = m.end() - 1
                    c = match_brace(body, o)
                    free, why = _body_free(body[o + 1:c])
                    sites.append(dict(file=rel, fn=name, recv=n, kind=kind, line=s.count('\n', 0, bo + m.start()) + 1, form='for', text=' '.join(m.group(0).split()),
                                      free=free, why=why if not free else 'loop body: commuting statements only'))
                for m in re.finditer(rx + r'\b\s*\.\s*(' + '|'.join(TRAV_METHODS) + r')\s*\(\s*(?:\.\.)?\s*\)', body):
                    e = _stmt_end(body, m.end())
                    chain = body[m.end():e]
                    # a `for .. in RECV.iter()... {` loop: chain runs up to the loop's `{`
                    pre = body[:m.start()]
                    fm = re.search(r'for\s+[^;{}]*?\s+in\s+(?:&\s*(?:mut\s+)?)?$', pre[-200:])
                    line = s.count('\n', 0, bo + m.start()) + 1
                    text = ' '.join((body[m.start():m.end()] + chain[:80]).split())
                    if fm:
                        o = body.index('{', m.end())
                        c = match_brace(body, o)
                        adapt = body[m.end():o]
                        if re.search(r'\.(enumerate|zip|rev|skip|take|step_by)\(', adapt):
                            free, why = False, 'position-dependent adaptor ' + ' '.join(adapt.split())
                        else:
                            free, why = _body_free(body[o + 1:c])
                            why = why if not free else 'loop body: commuting statements only'
                        sites.append(dict(file=rel, fn=name, recv=n, kind=kind, line=line, form='for', text=text, free=free, why=why))
                        continue
                    free, why = False, 'consumer keeps the visiting order'
                    for t in FREE_TERMINALS:
                        if re.search(t, chain):
                            free, why = True, 'order-forgetting consumer ' + t
                            break
                    if not free and name == 'fmt':
                        free, why = True, 'diagnostic formatting'
                    if not free:
                        # struct-literal field of a keyed-container type: `FIELD: RECV.iter()....collect(),`
                        sm = re.search(r'(\w+)\s*:\s*$', pre[-120:])
                        if sm and fieldkinds.get(sm.group(1)) and None not in fieldkinds[sm.group(1)] and re.search(r'\.collect(?:::<[^>]*>)?\(\)\s*$', body[m.end():_expr_end(body, m.end())].strip()):
                            free, why = True, 'collected into a keyed-container field'
                    if not free:
                        # `let [mut] X: <keyed container> = ....collect();`  or  `let mut X = ....collect(); X.sort..()`
                        lm = re.search(r'let\s+(?:mut\s+)?(\w+)\s*(?::\s*([^=;]+?))?\s*=\s*[^;]*$', pre[-300:])
                        if lm and re.search(r'\.collect(?:::<[^>]*>)?\(\)\s*$', chain.strip()):
                            if lm.group(2) and re.match(_TY, lm.group(2).strip()):
                                free, why = True, 'collected into a keyed container'
                            elif re.match(r'\s*;\s*' + re.escape(lm.group(1)) + r'\s*\.\s*sort', body[e:e + 80]):
                                free, why = True, 'collected and sorted right away'
                    sites.append(dict(file=rel, fn=name, recv=n, kind=kind, line=line, form='chain', text=text, free=free, why=why))
    # de-duplicate (a receiver can be matched by several candidate patterns)
    seen, out = set(), []
    for x in sites:
        k = (x['file'], x['line'], x['text'])
        if k not in seen:
            seen.add(k)
            out.append(x)
    return out
