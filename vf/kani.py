"""Kani harness runner (filled in below)"""
def run_harness(h, tier):
    raise NotImplementedError
