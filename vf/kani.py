"""Kani back end: harnesses live in /verif/kani/*.rs and are compiled INSIDE the real crate through the
`#[cfg(all(kani, p3r_verif))] mod verif_kani { include!(...) }` hooks, from /repo's current working tree."""
import os
import re
import subprocess
import time

VERIF = os.path.dirname(os.path.dirname(os.path.abspath(__file__)))
REPO = os.environ.get('VERIF_REPO', '/repo')
TARGET = os.path.join(os.environ.get('VERIF_BUILD') or os.path.join(VERIF, '.build'), 'kani-target')


def _env(profile):
    e = dict(os.environ)
    e['P3R_VERIF_DIR'] = VERIF
    flags = '--cfg p3r_verif'
    if profile == 'release':
        flags += ' -C debug-assertions=off'
    e['RUSTFLAGS'] = flags
    e['CARGO_TARGET_DIR'] = TARGET + ('-rel' if profile == 'release' else '')
    e['CARGO_NET_OFFLINE'] = 'true'
    return e


def run_group(crate, profile, harnesses, timeout=1500, playback=False):
    """one cargo-kani invocation for several harnesses of one crate/profile; returns {harness: result}"""
    cmd = ['cargo', 'kani', '-p', crate, '-Z', 'stubbing', '-Z', 'function-contracts']
    if playback:
        cmd += ['-Z', 'concrete-playback', '--concrete-playback=print']
    for h in harnesses:
        cmd += ['--harness', h['harness']]
    t0 = time.time()
    try:
        p = subprocess.run(cmd, capture_output=True, text=True, timeout=timeout, cwd=REPO, env=_env(profile))
        out = p.stdout + '\n' + p.stderr
    except subprocess.TimeoutExpired as ex:
        out = 'TIMEOUT ' + str(timeout)
    wall = time.time() - t0
    cmdline = f'P3R_VERIF_DIR={VERIF} RUSTFLAGS="{_env(profile)["RUSTFLAGS"]}" ' + ' '.join(cmd)
    res = {}
    # split per harness
    parts = re.split(r'Checking harness ', out)
    sections = {}
    for part in parts[1:]:
        name = part.split('...')[0].strip()
        sections[name] = part
    for h in harnesses:
        name = h['harness']
        sec = None
        for k, v in sections.items():
            if k.endswith(name) or k.endswith('::' + name):
                sec = v
        r = {'harness': name, 'profile': profile, 'cmd': cmdline, 'wall_s': wall / max(len(harnesses), 1), 'failures': [],
             'n_checks': 0, 'status': 'ok', 'reason': '', 'bounded': h.get('bounded')}
        if sec is None:
            r['status'] = 'undecided'
            tail = out[-1500:]
            r['reason'] = 'harness did not run (build error, lost hook or timeout): ' + tail
            res[name] = r
            continue
        m = re.search(r'\*\* (\d+) of (\d+) failed', sec)
        if m:
            r['n_checks'] = int(m.group(2))
        if 'VERIFICATION:- SUCCESSFUL' in sec:
            pass
        elif 'VERIFICATION:- FAILED' in sec:
            fails = re.findall(r'Check \d+: (\S+)\s*\n\s*- Status: FAILURE\s*\n\s*- Description: "(.*?)"\s*\n\s*- Location: (.*)', sec)
            descr = '; '.join(f'{d} @ {loc.strip()}' for (_, d, loc) in fails[:6]) or 'verification failed'
            if re.search(r'unwinding assertion|CBMC timed out|out of memory', sec):
                r['status'] = 'undecided'
                r['reason'] = descr
            else:
                r['failures'].append({'id': f'kani.{name}[{profile}]', 'message': descr, 'detail': sec[-6000:], 'input': None})
        else:
            r['status'] = 'undecided'
            r['reason'] = 'no verdict: ' + sec[-800:]
        res[name] = r
    return res


def run_harness(h, tier):
    """single harness (driver groups where it can)"""
    profile = h.get('profile', 'debug')
    r = run_group(h['crate'], profile, [h])[h['harness']]
    if r['failures']:
        # second run to obtain concrete values
        r2 = run_group(h['crate'], profile, [h], playback=True)[h['harness']]
        for f in r['failures']:
            det = r2['failures'][0]['detail'] if r2['failures'] else ''
            m = re.search(r'Concrete playback unit test.*?```\s*(.*?)```', det, flags=re.S)
            if m:
                f['input'] = {'concrete_playback_test': m.group(1)[:4000], 'replay_cmd': None,
                              'how': f'paste into the hook module of the crate and run `cargo kani playback -Z concrete-playback -- {h["harness"]}`'}
    return r
