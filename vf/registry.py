"""property -> deciding units / harnesses"""
K_ANALYSIS = [
    {'crate': 'p3-circuit', 'harness': 'c03_equal_keys_same_relation'},
    {'crate': 'p3-circuit', 'harness': 'c03_equal_keys_reachable'},
]
K_CONTEXT = [
    {'crate': 'p3-circuit', 'harness': 'c19_get_witness_contract', 'profile': 'debug'},
    {'crate': 'p3-circuit', 'harness': 'c19_set_witness_contract', 'profile': 'debug'},
    {'crate': 'p3-circuit', 'harness': 'c19_get_witness_contract', 'profile': 'release'},
    {'crate': 'p3-circuit', 'harness': 'c19_set_witness_contract', 'profile': 'release'},
]
PROPS = {
    'C02': {'units': ['expr', 'lower', 'opt', 'fuse', 'fvalid', 'optm', 'run19', 'coef', 'gad', 'hintx'], 'kani': K_ANALYSIS + [{'crate': 'p3-circuit', 'harness': 'c02_allocator_monotone'}], 'exclude': r'H_run_is_the_first_execution_of_the_op_list', 'only': {'coef': r'const_fold', 'gad': r'CircuitBuilder::select'}},
    'C03': {'units': ['opt', 'fuse', 'fvalid', 'optm', 'cbconn', 'lower'], 'kani': K_ANALYSIS},
    'C19': {'units': ['run19', 'pexec', 'pbits', 'hintx'], 'kani': K_CONTEXT, 'only': {'pexec': r'resolve_private_data|execute\[base_dispatch|execute\[state_assembly|RecomposeExecutor::execute|PoseidonPermExecutor::(new|clone)'}},
    'C20': {'units': ['gad', 'quot', 'fri', 'periodic', 'fquery', 'pcswrap'], 'kani': [], 'only': {'fri': r'evaluate_polynomial|circuit_exp_by_constant|lemma_', 'fquery': r'final_query_point'}},
    'C07': {'units': ['fri', 'shape', 'fold', 'fchain', 'fquery', 'evpts', 'openin', 'onehot', 'c15guard'], 'kani': [], 'only': {'shape': r'verify_fri_circuit', 'c15guard': r'top_height_guard|get_challenges_circuit|query_index_width'}, 'exclude': r'possible (bit shift|arithmetic)'},
    'C05': {'units': ['chal', 'coef', 'bind', 'pbuild'], 'kani': [], 'exclude': r'canonical_width', 'only': {'coef': r'select_path|recompose_base_coeffs_to_ext_impl\[dispatch\]\.(ensures\[(frame|output)|call\[|invariant\[)|recompose_base_coeffs_to_ext_impl\[const_fold', 'bind': r'add_poseidon[12]_perm_for_challenger(_base)?\.ensures\[(frame|shape|succeeds_when_enabled|emits_one_row|returns_the_rows)|duplexing_base(_p1)?\.ensures\[(emits_one_row|adopts_the_rows|rate_pinned_capacity_chained)|duplexing_ext(_p1)?\.(ensures\[one_row_over|invariant\[(packed|adopted|copying))'}},
    'C06': {'units': ['bind', 'pchain', 'pexec', 'pbuild'], 'kani': [], 'only': {'pexec': r'compact_header|limb_ctl_enabled|preprocess_flags|PoseidonPermExecutor::(new|clone)'}, 'exclude': r'H_the_index_accumulator_of_a_merkle_chain_start_row_is_pinned'},
    'C17': {'units': ['cache', 'rcplug', 'backcfg', 'order', 'meta'], 'kani': [], 'only': {'order': r'lane_resolution', 'meta': r'recorded_packing|with_public_alu_lanes|with_min_trace_height'}},
    'C10': {'units': ['sched', 'tracegen', 'ptrace', 'vrfy', 'extkind', 'order', 'prep', 'degpad', 'meta'], 'kani': [], 'only': {'order': r'lane_resolution', 'prep': r'H_a_built_circuit_is_never_refused|a_free_slot_first_read_as_b|H_a_hint_output_read_only_by_non_primitive_rows', 'meta': r'with_min_trace_height|with_horner_pack_k|with_public_alu_lanes|TablePacking::new|recorded_packing'}},
    'C18': {'units': ['dsu', 'order', 'pphase', 'fvalid', 'iterord', 'hashord'], 'kani': []},
    'C14': {'units': ['pack', 'pack2', 'pack3', 'pubin', 'packres'], 'kani': [], 'exclude': r'H_each_instances_values_have_the_length'},
    'C12': {'units': ['bits', 'chal', 'coef', 'rcair', 'prep', 'cbconn', 'lower'], 'kani': [], 'only': {'chal': r'canonical_width', 'prep': r'operand_[ac]_takes_part_in_the_witness_bus', 'lower': r'emit_bool_check|emit_mul_add'}},
    'C15': {'units': ['shape', 'bshape', 'openin', 'hmerge', 'bprep', 'c15guard', 'pack', 'pubin', 'vbatch'], 'kani': [], 'only': {'vbatch': r'verify_batch_circuit\.(safety\[|assert\[a_debug_assertion)', 'openin': r'per_matrix_shape_and_grouping|compute_single_reduced_opening|height_group', 'pack': r'OpenedValuesTargets::new', 'pubin': r'H_each_instances_values_have_the_length'}, 'exclude': r'H_a_proof_without_commit_phases_is_not_refused'},
    'C13': {'units': ['sym', 'symx', 'airlay'], 'kani': []},
    'C09': {'units': ['prep', 'mult', 'pread', 'pphase', 'ptrace', 'rcair'], 'kani': [], 'exclude': r'H_the_preprocessed_row_of_a_constant_commits_its_value|H_a_built_circuit_is_never_refused|H_a_hint_output_read_only_by_non_primitive_rows'},
    'C08': {'units': ['mmcs', 'hash', 'hashb', 'mbind', 'vbatch', 'vbatchx', 'a4sched', 'a4path', 'pexec'], 'kani': [], 'only': {'pexec': r'execute\[state_assembly'}},
    'C16': {'units': ['meta', 'vrfy', 'serde16', 'manif', 'rcplug', 'alu', 'extkind', 'serdeattr'], 'kani': [], 'only': {'alu': r'AluAir::eval'}},
    'C11': {'units': ['air', 'alu', 'run19', 'tracegen', 'pchain', 'p4chain', 'prep', 'sched'], 'kani': [], 'only': {'run19': r'execute_alu_op', 'prep': r'H_the_preprocessed_row_of_a_constant_commits_its_value', 'sched': r'true_iff_every_op_of_the_window_reads_the_same_b'}},
}

TB_COMMON = ['p3 field types satisfy the field laws the lemmas name; machine field arithmetic treated as mathematical',
             '64-bit usize']

META = {
    'C02': {
        'technique': 'Verus contracts on extracted real functions (optimizer kernel) + Kani loop-free harnesses',
        'text': 'Deductive proof, for every op list and every rewrite history, that the optimizer kernel preserves what each op denotes: '
                'WitnessId::resolve returns the unique root of an acyclic rewrite map (termination proved), Op::apply_witness_rewrite maps every slot '
                'of every op variant through it and touches nothing else, AluKey::{new,with_acc} identify two ALU ops only when their relations coincide '
                '(lemma_same_key_same_relation over an abstract field), Deduplicator::run keeps the rewrite map acyclic and its kept ops on root slots. '
                'Unit tests sample a handful of op lists; the loop invariants cover all of them. '
                'Builder level (unit expr): over a denotation den(graph, valuation, id) of the expression DAG, every ExpressionBuilder operation (define_const, add, sub, mul, div, add_horner_acc, add_mul_add, '
                'add_bool_check, public, private_input, connect, new) is proved for EVERY valuation to return an id denoting the operation on its operands — through every constant fold, algebraic shortcut '
                '(x+0, x-x, 0*x, 1*x, x/1, 0/x, x/x), commutative key normalisation and pool hit — while the graph only grows and the five pools keep the invariant "a key maps to a node denoting the keyed operation". '
                'Lowering (unit lower): every LoweringState::emit_* is proved, for every complete witness table, to emit ops whose relation (the one the runner is proved to establish, unit run19) '
                'holds exactly when the node slot carries the value the Expr node denotes (add, both encodings of sub, mul, backwards-mul division, Horner step, bool check, mul-add), '
                'emit_operations to dispatch every node to the emitter of its own kind with its own operands, emit_constants/publics/privates to bind every leaf to its value/position.'
            ' Round 15: the all-constant fold of recompose_base_coeffs_to_ext* (slice coef..[const_fold]) is proved to be the value the mul_add chain computes; pure helper methods added to the key types are reasoned about by their own bodies (dual spec/exec emission).',
        'note': 'MulAddFusion::{identify_candidates, filter_valid, apply}, the non-primitive emitters and the CircuitBuilder wrappers above ExpressionBuilder are NOT under contract. '
                'x/x folds to 1 and 0/x to 0: the division contract is stated for valuations with a non-zero divisor. Built without the debugging/profiling features (R10). '
                'Trusted: Verus/Z3/vstd, Kani/CBMC, the extractor and its logged rewrites (R1-R12), hashbrown==std HashMap, key model of derived Hash/Eq, '
                'opaque executors, wf_op shape of lowered ops.'
                ' Round 19: unit hintx (the decomposition hints never overwrite a set slot: a connect between a hint output and an earlier-populated expression is enforced at run time).',
    },
    'C03': {
        'technique': 'Verus contracts on extracted real functions (Deduplicator) + Kani loop-free harness on AluKey',
        'text': 'Deductive proof that ALU de-duplication never drops a relation: Deduplicator::run ensures all_covered(input ops, kept ops, final rewrite), and '
                'theorem_dedup_no_relation_dropped turns that into: ANY assignment satisfying every kept op satisfies every input op read through the rewrite '
                '(no reference to the honest runner). The side condition (a rewritten slot is mentioned by no kept op) was the open finding C03-alias; since the fix ba1bfe9 the pass '
                'maintains the set of mentioned slots (Deduplicator::mark_mentioned, under contract) and the condition is a discharged obligation.'
            ' Round 15: CircuitBuilder::connect (unit cbconn) hands every equality of two different targets to the expression builder -- a provenance cache never stands in for the equality.',
        'note': 'Under contract: Deduplicator::{new,detect_duplicate,mark_mentioned,run}, AluKey::{new,with_acc}, WitnessId::resolve, Op::apply_witness_rewrite, and of MulAddFusion the analysis and candidate test: '
                'def_idx, is_const, uses, is_backwards, insert_def, track_backwards_op, scan_use_counts (= number of relation reads incl. Horner accumulators), scan_defs (last-definer / constant-sticky / '
                'backwards invariants), try_fuse (a returned candidate is `fusable`: plain product read only by that plain sum, mentioned by no other relation — two hypotheses were needed before the fixes F4/F5). '
                'NOT under contract: identify_candidates, filter_valid, apply (how the validated candidates are spliced into the list). Trusted base as C02; non-primitive rows denote an uninterpreted relation.',
    },
    'C19': {
        'technique': 'Verus contracts on extracted real runner functions + Kani loop-free harnesses inside the real crate under both build profiles',
        'text': 'Complete (loop-free, full-domain) proofs with CBMC that ExecutionContext::get_witness is Ok exactly for an in-range set slot and returns its value, '
                'and that set_witness errs out of range, never overwrites a different value, and changes at most the addressed slot — checked on the code selected by '
                'debug assertions ON and OFF, so the optimized profile cannot diverge (it did: F2, fixed).'
            ' Round 15: direction bits read from the witness are validated (unit pbits: resolve_boolean_witness / resolve_mmcs_bit / resolve_mmcs_bit2); private data on a row that cannot consume it is an error (pexec guard slices).',
        'note': 'Functions under contract: ExecutionContext::{get_witness,set_witness} (Kani, both profiles) and CircuitRunner::{set_witness,witness_value,get_witness,'
                'set_public_inputs,set_private_inputs,execute_alu_op,execute_all} (Verus, all circuits / all inputs: wrong length is an error and changes nothing, a set slot never '
                'changes value, Ok of execute_all means every Const/Public/ALU op left its relation in the table, a withheld public input is an error). '
                'Not under contract: CircuitRunner::{new,set_private_data,run} and the executors (assumed monotone). Kani: slice of 3 symbolic slots, symbolic u32 index, BabyBear. '
                'Trusted: Verus/Z3, Kani/CBMC, rustc cfg selection via -C debug-assertions, extractor rewrites.'
                ' Later rounds: set_private_data, the executor guard slices (unit pexec), the direction-bit readers (unit pbits) and -- round 19 -- the store of the two decomposition hints (unit hintx: hint executors write the raw witness table, outside the runner\'s own conflict detection; a set slot is never overwritten, a set slot holding another value is an error) are under contract.',
    },
}

META['C20'] = {
    'technique': 'Verus contracts on extracted real gadget functions over an abstract field',
    'text': 'Deductive proof, for every field satisfying the ring/inverse laws, every domain size/shift, every exponent and every input value, that the gadget '
            'functions return a target whose value is the native formula: exp_power_of_2 = x^(2^k) (loop invariant), mul_many = product, inner_product = dot product, '
            'select, vanishing_poly_at_point_circuit = the value of the native helper vanishing_poly_at_point_native (both under contract), '
            'selectors_at_point_circuit (both PCS impls) = the four native Lagrange selector formulas of p3-commit. Unit quot: compute_quotient_chunk_products returns, per chunk, '
            '(prod_j Z_j(zeta) / Z_i(zeta)) / prod_{j != i} Z_j(g_i) (the natively pre-computed denominators included, for every number of chunks), compute_quotient_evaluation the sum over chunks of '
            'coefficient times basis recomposition, and recompose_quotient_from_chunks_circuit their composition — under the stated non-vanishing of the divisors.'
            ' Round 15: circuit_exp_by_constant is total (base^0 = 1), no precondition on the exponent.'
            ' Round 18: unit pcswrap -- the domain operations both RecursivePcs impls hand to the verifier (periodic columns, disjoint domain, split, log size, first point) are the native operations on the domain they are GIVEN.',
    'note': 'Unit periodic: evaluate_one / evaluate_periodic_columns_circuit return, for every column, the Horner value of the lifted coset-inverse-DFT coefficients at point^(2^(log_n - log_period)), i.e. the native '
            'evaluate_periodic_column_at (native constants npow2 / idft / lift uninterpreted), and reject malformed columns. '
            'Assumed (proved elsewhere or trusted): builder arithmetic contracts (value of add/sub/mul/div/mul_add/define_const under one fixed input assignment); '
            'native formulas transcribed from p3-commit 0.6.3; R11 type erasure of SC/PCS generics to a Field/PcsStub/CosetStub prelude (logged per function). '
            'Iterator chains (enumerate/filter/fold, map/collect_vec) are desugared to loops by logged R6 rules with the closure bodies verbatim.',
}

META['C05'] = {
    'technique': 'Verus contracts on extracted real challenger methods: refinement of a transcribed native DuplexChallenger model through an abstraction function',
    'text': 'Deductive refinement proof: every public method of CircuitChallenger (init, observe, sample, observe_ext, sample_ext, sample_bits, check_pow_witness, clear) '
            'and the internal duplexing step take a state satisfying the representation invariant to one satisfying it, and the abstraction function commutes with the '
            'corresponding native DuplexChallenger operation (p3-challenger 0.6.3, transcribed). Since each method is proved from the invariant alone, induction over the '
            'history covers every finite interleaving, every WIDTH/RATE and both permutation families — which the 45 transcript tests only sample.'
            " Round 15: duplexing_base / duplexing_base_p1 and the base-field wrappers have value-level contracts (unit bind, witness function last_base_row): one row with the chain flag, the rate limbs and the caller's length tag, outputs adopted in order; the recomposition dispatch and constant fold (unit coef) count for C05 as well.",
    'note': 'Assumed at this layer: the four permutation back ends (duplexing_base/ext/_p1) have the callee contract tracked-state := perm(tracked-state) (base path: tag added by the '
            'table through absorb_len, capacity carried by in-table chaining); builder decomposition/recomposition return the honest coefficient/bit vectors (canonicity is C12); '
            'the native model is a transcription; RATE <= 255 (length tag is a byte). Not decided here: equality of sample_bits with the native as_canonical_u64 & mask (needs C12).',
}

META['C15'] = {
    'technique': 'Verus contracts + Verus-generated no-panic obligations on extracted real validation code, no precondition on prover-controlled lengths',
    'text': 'Deductive proof that shape validation is total and exact: validate_proof_shape returns Ok if and only if the opened-values shape is the well-formed one '
            '(every list length, every chunk width, the ZK random opening) and otherwise Err(InvalidProofShape); the validation prefix of verify_fri_circuit returns Ok only '
            'with every length the fold/query code later indexes with (per-query opening counts, per-phase log_arity and sibling-coefficient counts, index-bit widths, final '
            'polynomial length), and no index, subtraction or slice in it can panic for ANY list lengths; CommitPhaseProofStepTargets::new is checked with an arbitrary proof-supplied byte. '
            'The shift/multiply obligations on proof-supplied widths fail and are the recorded finding C15-shift-widths. '
            'Unit openin: the per-matrix loop of open_input returns Ok if and only if there is one opened row per matrix and EVERY opening point of EVERY matrix lists exactly one value per opened column '
            '(which is the indexing precondition of compute_single_reduced_opening and of the single-chain path, both discharged at their call sites).'
            " Round 15: the width of the query index is sum(log_arities) + the verifier's own log_final_poly_len + log_blowup (c15guard..[query_index_width] x2); the uni-STARK verifier rejects claimed degree bits below the ZK adjustment (c15guard..[zk_degree_guard]).",
    'note': 'Kernel: validate_proof_shape (stark.rs), validation prefix of verify_fri_circuit (R13 prefix extraction), CommitPhaseProofStepTargets::new. Not yet under contract: '
            'the per-instance loop of verify_batch_circuit (its unchecked lookup_terminals index was found by reading and fixed: F3), MMCS cap/path split, panics inside p3 dependencies. '
            'Assumed: 64-bit usize, log_arities entries originate from a u8, realistic proof sizes (< 2^32 phases, extension degree < 2^16). Error message strings dropped.'
            ' Later rounds (this note\'s `not yet` list is superseded): units bshape / bprep / c15guard put the batch verifier\'s shape checks, the MMCS cap/path split, the metadata guard and the degree guards under contract; round 19: unit vbatch\'s panic-freedom obligations (indexing, and every debug assertion provable from the checks made before it) count for C15.',
}

META['C12'] = {
    'technique': 'Verus contracts on extracted real decomposition gadgets + an integer-arithmetic uniqueness lemma + a call-site obligation',
    'text': 'Deductive proof over an abstract field that reconstruct_index_from_bits / decompose_to_bits make every bit target boolean and tie the weighted sum to the decomposed value '
            'whenever the asserted constraints hold (for every bit width, chunking and extension degree), and — over the integers — that a boolean n-bit vector congruent to x mod P '
            'with 2^n <= P is the binary expansion of x (lemma_canonical_unique, lemma_bits_injective). The proviso 2^n <= P is a precondition (canonical_width) that each caller must '
            'establish; the call in CircuitChallenger::sample_bits does not (finding C12-noncanonical-bits), every other obligation is discharged. '
            'Coefficient half (units coef, rcair): RecomposeAir::eval is proved to put exactly (output_idx, row) per lane on the bus (plus one (coeff_idx_i, row_i, 0..) tuple per coefficient in the wide variant) and no '
            'constraint; on that table semantics recompose_via_npo, the table-or-ALU dispatch of recompose_base_coeffs_to_ext_impl (ALU chain = sum c_i e_i, loop invariant) and the hint path of '
            'decompose_ext_to_base_coeffs are under the contract "in every accepted proof the coefficients recompose to x and are base-field elements". Two hypotheses fail on the unchanged tree and are recorded '
            'findings with forged proofs: the narrow table binds its output to nothing (C12-recompose-table-output-unbound), and without the coefficient table nothing forces base-field coefficients '
            '(C12-coefficients-not-forced-into-base-field).'
            ' Round 15: CircuitBuilder::connect (unit cbconn): a target hinted as a recomposition is tied to its coefficients by the connect, which is never skipped.',
    'note': 'NOT covered: the provenance-cache, constant-fold and select-provenance shortcuts of decompose/recompose; the wide table is modelled optimistically (see the finding text). '
            'Assumed: builder arithmetic/assert contracts; e_i*2^j constant abstracted to basis_pow2(i,j); the link between weighted_sum over the field and bits_value over the integers '
            '(characteristic P, embedding of base elements) is an informal step; 64-bit usize.',
}

META['C11'] = {
    'technique': 'Verus contracts on extracted real constraint helpers over the free commutative ring (integers) + runner ALU semantics',
    'text': 'Deductive proof, for every extension degree D and every operand values, that the extension multiplications the ALU constraints are built from compute multiplication in '
            'F[X]/(X^D - w) (ext_mul_binomial: loop invariant over the D*D partial sums) and in F[X]/(X^5 + X^2 - 1) (ext_mul_quintic_trinomial: existence of the quotient polynomial), '
            'that the runner side of each ALU kind (execute_alu_op) leaves exactly the defining relation in the witness table in forward and backward mode, '
            'and that AluAir::eval asserts exactly the selector-gated runner relations (the runner\'s Horner step acc*b + c - a is the kernel of every packed form).'
            ' Round 15: the chaining block of the arity-4 Poseidon2 table (unit p4chain) asserts exactly booleanity, sponge chaining, running-hash placement and the base-four index accumulator.',
    'note': 'The body of AluAir::eval IS under contract (unit alu): for one two-row window, the conjunction of all asserted polynomials equals the conjunction of the selector-gated runner relations '
            '(Add, Mul via the residual selector, BoolCheck, MulAdd, one Horner step to the next row; packed Horner: b^2 column, first two steps folded into the next row, pair legs through the stored '
            'intermediates, odd tail step, single-step fallback), both directions, for every D, lane count and packing K; no index in the row windows can go out of bounds. NOT under contract: '
            'eval_alu_interactions (bus sends), the 4-line ext_mul_lane closure (stub returning the ring product), trace generation, Const/Public/Recompose and Poseidon AIRs. '
            'Ring elements are integers with an uninterpreted product in unit alu (every obligation there is an equality of terms); identities over Z transfer to every commutative ring (trusted). '
            'Column views generated from the real struct definitions (repr(C) field order).',
}

META['C16'] = {
    'technique': 'Verus contracts on extracted real metadata validators and builder methods',
    'text': 'Deductive proof that the metadata validators accept exactly the well-formed metadata (TablePacking::validate and RowCounts::validate return Ok if and only if every lane count is '
            'positive, the minimum trace height is a power of two, the Horner packing is >= 2, every row count is positive), that the builder methods only produce well-formed metadata, and that '
            'the metadata prefix of verify_all_tables continues only if the proof-declared extension degree, binomial parameter and quintic flag EQUAL the verifier-derived ones, and hands the '
            'verifier-derived parameter (not the proof\'s) to the rest of verification. Unit vrfy: the WHOLE of BatchStarkProver::verify::<D> is under contract — its verdict is exactly the '
            'batch verifier\'s verdict on AIRs rebuilt from (rows, packing, verifier-derived reduction, each registered plugin\'s reading of its entry), on lookup contexts DERIVED from those AIRs '
            '(never read from the proof\'s common data, which is the one part serialization drops: hence the round-trip verdict), on the listed public values and the preprocessed binding.',
    'note': 'NOT decided: that the remaining self-declared fields (rows, packing, table list) cannot help a prover — that rests on the preprocessed-commitment '
            'binding (C04, cryptographic); the serde derive macros themselves are outside any contract here. BatchStarkProof::validate is a callee contract (conjunction of the validators). '
            'p3_batch_stark::verify_batch is an external dependency: uninterpreted verdict + stated precondition.',
}

META['C07'] = {
    'technique': 'Verus contracts on extracted real FRI gadget functions + the shape-validation prefix of verify_fri_circuit',
    'text': 'Deductive proof over an abstract field of the arithmetic building blocks of the in-circuit FRI verifier: one_hot_from_two/three_bits give the indicator of the little-endian index for '
            'boolean bits, arity2_fold_at_point is the native arity-2 fold e0 + (beta - x0)(e1 - e0)(-1/2)/x0, evaluate_polynomial is Horner evaluation of the final polynomial for every length, '
            'circuit_exp_by_constant is x^n for every n > 0 (square-and-multiply invariant with bit-vector lemmas), reconstruct_evals rebuilds the native evaluation row for every arity (the folded value at the '
            'little-endian index of the boolean index bits, the siblings in order around it: closed forms for arity 1/2/4/8 and the generic one-hot + cumulative-sum path); and the validation prefix of verify_fri_circuit returns Ok only with every length '
            'fact the fold/query wiring indexes with. Unit openin: compute_single_reduced_opening is one native (matrix, point) step (alpha_pow * Horner(p(z) - p(x)) / (z - x), alpha power advanced by the width); '
            'the body of open_input\'s loop over height groups leaves for its height exactly the native fold over (matrix, point) pairs — on the per-matrix path step by step, on the single-Horner-chain fast path '
            'through lemma_unified_chain (the chain equals the fold when every matrix shares the one opening point, proved from the ring laws); the grouping loop files each matrix under its height in order.',
    'note': 'GADGET KERNEL ONLY. Not under contract: one_hot_from_four_bits / one_hot_from_bits (generic arity; assumed callee of reconstruct_evals), fold_chain_circuit wiring, the MMCS part and the final list of open_input (a seeded change there — unified-z fast path keyed on the first matrix — is NOT detected: BTreeMap/closure code outside the normaliser), '
            'Unit fold: fold_one_phase (arity-2 fast path, unrolled arity 4 and 8, general in-place loop, roll-in) equals the native fold tree of the reconstructed row at the points ss^(2^s) * twiddle, '
            'challenge beta^(2^s), under the precondition that the evaluation points are non-zero; compute_subgroup_points returns ss * omega^br(i). '
            'proof-of-work, Merkle openings (C08), and the iff with the native verifier. Builder arithmetic contracts are assumed; -1/2 and bit_length are abstracted constants/stubs.',
}

META['C08'] = {
    'technique': 'Verus contracts on the extracted real cap-selection gadget and extension-leaf hasher against a transcribed native overwrite-mode sponge',
    'text': 'Deductive proof, for every cap height, digest width and boolean index-bit assignment, that select_cap_entry returns componentwise the cap entry at the little-endian index of the '
            'remaining index bits (invariant over the halving layers: layer k entry m is cap[m*2^k + low-k-bits index]), with every index in bounds; and, for every number of extension elements, '
            'rate and width, that add_hash_extension_elements returns targets whose values are the native PaddingFreeSponge digest of the row (invariant over the chunks: the table row state equals '
            'the native sponge state after i chunks; the permutation row reads exactly the native absorbed state: chunk values, previous rate outputs on a partial non-first chunk, chained capacity). '
            'Unit vbatch: the whole of verify_batch_circuit asserts exactly the native batch-opening relation: level digest i = sponge of the concatenation, in the STABLE descending-height order, of [coefficients | salt] '
            'of the matrices consumed at level i (padded height 2^(maxlog-i)), the path recomputed with index_bits[..path_depth], compared with the cap entry at the little-endian index of index_bits[path_depth..]; '
            'mismatched batch sizes are rejected.'
            ' Round 15: add_hash_base_coeffs_overwrite, the leaf hash of every base-field row, is PROVED (unit hashb) to be the native overwrite-mode sponge over the base stream seen through the packing of D base positions per limb (both the packed and the lift route); it had been an assumed callee.',
    'note': 'Soundness side (unit mbind + one obligation in hash): the values add_mmcs_verify and the leaf hasher hand to a permutation row must be tied to that row by the table; '
            'the table facts are spec predicates transcribed from the AIR/executor text and the obligations FAIL on the unchanged tree: KNOWN FINDINGS C08-leaf-hash-capacity-free, '
            'C08-merkle-row-given-limbs-unbound, C08-merkle-direction-bit-unbound (forged proofs in findings/C08_mmcs_unbound_test.rs). '
            'Not under contract: add_hash_base_coeffs_overwrite (base-coefficient route; assumed callee of the D=1-in-extension branch), path compression rows and direction bits, arity-4 schedules '
            '(itertools-heavy), the MMCS executor, and the iff with the native Merkle verifier. Assumed: one permutation row = permute(bus-read limbs, zero on chain start / previous row output for omitted '
            'limbs) (executor semantics; C06 examines enforcement); native sponge transcribed; reset = true as at all call sites; single-chunk merkle_seed rows unspecified. select_cap_entry '
            'preconditions: |cap| = 2^|bits|, equal row widths (the debug_assert in the code), boolean bits.'
            ' Later rounds (this note\'s `not under contract` list is superseded): units hashb (add_hash_base_coeffs_overwrite, whole), a4sched / a4path (arity-4 schedule and walk), mbind (path rows), pexec (state assembly order) are under contract; round 19: add_mmcs_verify emits an injection row at every level after the first whose digest list is not empty (ghost count); the H-marker assertions of unit mbind are proved in isolated sub-proofs (a failed assertion would otherwise be assumed by what follows).',
}

META['C09'] = {
    'technique': 'Verus contracts + ghost bus-role accounting on the extracted real preprocessing function',
    'text': 'Deductive proof, for every op list (any aliasing between constants, public/private inputs, hint outputs, ALU and non-primitive outputs), about the bus roles that '
            'Circuit::generate_preprocessed_columns EMITS: ghost counters are updated from the emitted creator/reader flags themselves, and the loop invariants require that no slot ever has two '
            'creators, that the `defined` table is exactly "has a creator", that the reader list passed to increment_ext_reads is exactly the flag-derived reader list, and that ext_reads equals '
            'the number of emitted reader roles (PreprocessedColumns::increment_ext_reads is proved to count every occurrence). The one-creator obligation fails in the Const/Public arms and in four '
            'operand-alias cases of the ALU arm: recorded findings C09-two-creators and C09-alias-double-creator; everything else is discharged. '
            'Unit mult: the prover-side conversion of one 12-value ALU row into its 13 bus columns (get_airs_and_degrees_with_prep, loop-body slice) sends every operand with the multiplicity of ITS OWN role '
            'and ITS OWN slot: reader -1, creator +ext_reads[slot], skipped 0.',
    'note': 'Not decided: that every slot that is READ has a creator (needs the lowering invariants of the whole builder pipeline), the multiplicity conversion in circuit-prover/src/common.rs, '
            'non-primitive plugin preprocessing (opaque: may only add reads). Assumed: realistic sizes (< 2^19 ops, < 4096 output elements per non-primitive op) so u32 read counters do not overflow; '
            'flag values 0/1/2 distinct; dup_npo_outputs bookkeeping abstracted.',
}

NOT_APPLICABLE = {
    'C01': 'whole-verifier equivalence with the external native verifier (p3-uni-stark / p3-batch-stark): needs a relational spec of ~1.5 kLoC of dependency code across four generic traits; no per-function contract within reach expresses it. Its parts are decided under C05/C07/C08/C13/C14/C15/C20.',
}
META['C13'] = {
    'technique': 'Verus contracts on the extracted real symbolic compiler (work-stack walk) and the alpha-folding loops',
    'text': 'Deductive proof, for every symbolic constraint DAG (any depth, any sharing through the cache) and every assignment of the opened values, that SymbolicCompiler::compile_base returns a target '
            'whose value is the NATIVE evaluation of the expression (den: variable -> the opened value the native folder reads, selectors, lifted constants, +, -, negation, *): invariant = the pending '
            'work stack, run symbolically on a stack of nodes, yields exactly [root] and every value on the stack denotes its node; the shared cache stays sound (each key maps to a target denoting its node); '
            'termination is proved (weighted size of pending work) and no `pop` can fail. resolve_base_var / resolve_ext_var read the slice the native folder reads for each entry kind and row offset. '
            'The two folding loops of eval_folded_circuit compute the native accumulation acc = acc*alpha + c over base constraints first, then extension constraints.',
    'note': 'compile_ext is proved in unit symx by the same work-stack refinement (base sub-expressions delegated to compile_base, whose contract is the callee contract there; extension variables read through resolve_ext_var; two shared caches stay sound); in unit sym it is the callee contract of the folding slice. The prefix of eval_folded_circuit (AirLayout, p3 get_symbolic_constraints) is opaque: the folding part is a '
            'slice extraction (R13) with the two constraint lists as parameters. Assumed: the cache key `node as *const _` identifies one node (NodeKey abstraction); p3-air expression types mirrored in the '
            'prelude with Box instead of Arc; variables address existing opened values inside the two-row window (vars_in_range); builder arithmetic contracts.',
}

META['C06'] = {
    'technique': 'Verus contracts on the extracted real challenger and permutation wrappers: taint (pinned-by-the-proof) representation invariant over a ghost set in the builder',
    'text': 'Deductive proof of a taint invariant, for every history of observe / sample / clear and both permutation families and packings: every target the sponge feeds into its next permutation '
            '(the whole tracked state on the extension path; the rate part plus the in-table chain on the D=1 path) and every buffered output is pinned, i.e. its value is fixed in every accepted proof by '
            'constants, public values and relation-checked operations over pinned operands; hence every sampled target is pinned to everything observed before it. The bus exposure of one permutation row is '
            'a contract transcribed from add_poseidon_perm_inner / the executor; the four add_poseidon{1,2}_perm_for_challenger{,_base} wrappers, the four duplexing back ends, duplexing, init, observe, sample '
            'and clear are proved against it. The tests only run honest witnesses, which cannot distinguish a pinned target from a free one. '
            'Unit pchain (table side of the in-table capacity chaining): the compact D=1 chaining block of poseidon2-circuit-air and poseidon1-circuit-air eval asserts EXACTLY rate chaining under the per-limb helper, '
            'capacity chaining (+ length tag) under cap_chain_enable*(1-merkle), Merkle left/right placement, the un-gated chain-start pin of the capacity (row 0 included: fix F6) and the index-sum accumulation; '
            'corollaries: a chained sponge row receives the previous capacity, a chain start has the tag-only capacity (what unit bind assumes of the table).'
            " Round 15: the committed length tag of every base-field duplexing is the caller's absorb_len (unit bind, duplexing_base*.ensures[emits_one_row..]).",
    'note': 'Assumed (trusted): which outputs of a permutation row are created on the witness bus (ext_perm_post / base_perm_post); taint rules of builder primitives, recompose and the base-coefficient '
            'decomposition; D=1 path: no foreign sponge-table row between two permutations of one challenger; configuration geometry fits WIDTH/RATE; permutation tables enabled. '
            'KNOWN FINDING C06-ext-capacity-unbound: on the D>1 path the capacity limbs handed back by the wrappers are not exposed, so capacity_outputs_pinned fails (forged proof in findings/).',
}

META['C17'] = {
    'technique': 'Verus contracts on the extracted real cache-guard / cache-fill blocks of the recursion layer provers, ghost ownership tags on cached data',
    'text': 'Deductive check of the cache half of the property: every value the layer provers handle carries a ghost tag saying which circuit (and which configuration) it belongs to; a layer output '
            'is coherent when its proof, its preprocessed data and its configuration all belong to the call. Proved: aggregation_circuit_fingerprint reads all four counters; the aggregation guard '
            'compares the stored fingerprint with this circuit\'s; a filled slot always stores the fingerprint of the circuit its data was prepared for (representation invariant, kept by the fill block); '
            'the fill block stores data of this circuit and configuration; without a cache the slot is untouched. The obligations the property needs at a cache hit -- same circuit, same configuration -- '
            'are stated where the cached data is used and are the known findings below.'
            ' Round 15: on a cache hit the prover that proves is the one the cached preprocessed data was laid out with (prep_packing tag in `coherent`); keys and prover resolve lane counts alike (order.lane_resolution).',
    'note': 'Layer-chaining half of C17 (a layer output is a valid input of the next layer, for every chain) is a whole-pipeline statement about prover and verifier: not expressible as a function contract here. '
            'All callees of the cache blocks are ASSUMED stubs that only say whose data they return; `coherent` is the meaning given to the tags. '
            'KNOWN FINDINGS (forged runs in findings/C17_cache_reuse_test.rs): C17-aggregation-fingerprint-collision, C17-aggregation-config-not-keyed, C17-next-layer-unguarded.',
}

META['C10'] = {
    'technique': 'Verus contracts on the extracted real ALU lane scheduler (ghost flattening of the schedule into its Horner and ordinary operation lists)',
    'text': 'Deductive proof, for every preprocessed ALU table, lane count and packing bound, about the schedule AluAir::compute_schedule returns: it is None exactly when no operation is a Horner step; '
            'otherwise the Horner steps placed by the schedule (single or packed entries, in schedule order) are exactly the Horner operations in increasing order and the ordinary entries are exactly '
            'the other operations in increasing order -- every operation is placed exactly once; rows are complete; every Horner entry sits in lane 0; a packed entry covers 2..=pack_k contiguous '
            'operations with one b index; Horner entries in lane 0 of consecutive rows continue the same run of operations, a separator row precedes every run and row 0 starts with a separator. '
            'The fill_row closure (hoisted to a function) completes the current row with the next pending ordinary operations, then separators. reduce_lanes_if_dummy returns 1 lane for dummy tables. '
            'Unit tracegen: the scheduled branch of AluAir::trace_to_matrix never indexes outside the value vector or the runner trace for any schedule (this obligation failed before fix F7: a short packed group ending '
            'the op list), and the accumulator seeding a packed Horner row is the previous row lane-0 out (zero after a separator and on row 0), as the constraints read it.'
            ' Round 15: the declared degree of a primitive table is the log of the height its AIR pads to (unit degpad, every row count incl. 0); keys and prover resolve the recompose/coeff lane count alike (relational slice order.lane_resolution); a free slot first read as b gets its creator in that row (unit prep).',
    'note': 'KERNEL: the scheduling mechanism named by the property. The statement itself (trace generation, proving and native verification succeed for every buildable circuit) spans the prover and the '
            'proof system and is not a function contract. Assumed: horner_ops_share_b_idx (iterator chain) says all listed operations read one b index; iter().any / saturating_sub / min / is_multiple_of / '
            'mem::take helper semantics; field elements opaque with decidable equality; preprocessed lane view generated from the real struct; that prep and prove call reduce_lanes_if_dummy with the same arguments is not checked.',
}

META['C18'] = {
    'technique': 'Verus contracts on the extracted real connect union-find and the one hash-set iteration of the lowering pipeline: results proved to be functions of the container VIEWS',
    'text': 'Deductive proof that the witness numbering obtained through the connect union-find cannot depend on hash iteration order: (1) ConnectDsu::find returns the class representative and its '
            'two-pass path compression leaves the abstract state (representative of every id, slot table, membership set) unchanged; union merges exactly the two classes under the first id\'s root; '
            'class_witness / alloc_witness read or create the class slot -- all of them only get/insert, so they are functions of the map views by construction of the contracts; '
            '(2) backfill_connect_mappings, the only place of the anchored lowering code that ITERATES a hash container, is proved for EVERY enumeration order of the set (any duplicate-free sequence '
            'with the same element set) to produce the same map: a spec function of the old map, the membership set, the representatives and the slot table. A test can only sample the orders one '
            'process happens to produce. Unit order: the loop of get_airs_and_degrees_with_prep that builds the non-primitive AIRs scans a hash map inside the loop over the registered builders; '
            'it is proved, for EVERY iteration order of that map, to append the AIRs in builder registration order (one per builder that accepts a present op type, under the stated hypothesis that a builder '
            'accepts at most one present type); poseidon2_air_builders_for_configs yields one builder per listed config in the listed order.',
    'note': 'KERNEL. Determinism of the whole build (emission in DAG creation order, sorted generator order, AIR order by registration, parallel trace generation, preprocessed commitment) is a property '
            'of two runs; only per-function "result is a function of the view" statements are contracts. Not under contract: build_with_public_mapping (its HashMap -> HashMap re-keying and the sorted '
            'generator list are order-insensitive by construction; its tag-transfer loop returns an order-dependent error only when several tags are unmapped), emit_operations, common.rs AIR ordering. '
            'Assumed: hash-set iteration yields each member exactly once in an unspecified order; key model of the id newtypes; WitnessAllocator::alloc (Kani).',
}

META['C14'] = {
    'technique': 'Verus contracts on extracted real allocate / flatten pairs, ghost allocation-order sequence in the builder',
    'text': 'Deductive proof, for every proof shape (any number of columns, optional next-row / preprocessed / ZK-random vectors present or absent, any number of quotient chunks of any widths, any number of '
            'instances), that the opened-values target structures are allocated in the SAME traversal order in which their values are flattened: the builder stub records the allocation order of private '
            'inputs in a ghost sequence; OpenedValuesTargets::new, OpenedValuesTargetsWithLookups::new and BatchOpenedValuesTargets::new extend it by exactly the canonical flattening of the structure they '
            'return, give every target vector the length of the proof field it carries, and allocate no public input; the matching get_private_values return the canonical flattening of the proof values '
            '(get_values is empty). Hence position k of the packed vector lands on the k-th allocated target, which carries the same field element, and both have one length.',
    'note': 'Unit pack: the opened-values family (uni-STARK, with lookups, batch). Unit pack2: the composite FRI structures of pcs/fri/targets.rs (FriProofTargets, QueryProofTargets, BatchOpeningTargets, '
            'InputProofTargets, the Hiding* structures, Witness, HashProofTargets) against the contract of the Recursive trait, for every child type meeting it. Unit pack3: CommitmentTargets, ProofTargets, '
            'CommonDataTargets (types/proof.rs). Unit pubin: the builders of public_inputs.rs pairing allocate() with pack_*(). Unit packres (round 18): the unified backend hands out exactly the builder\'s '
            'vector for the matching input variant (FriVerifierResult::pack_public_inputs / pack_private_inputs) and refuses a mismatching one. '
            'Not under contract: the second half of the property (no input the native verdict depends on is left unconstrained), which is a statement about the whole '
            'verifier circuit. Assumed: alloc_private_inputs allocates count fresh private inputs in order; p3-uni-stark OpenedValues field list; MMCS-proof target structures of other PCS back ends.',
}

NOT_APPLICABLE['C04'] = ('soundness of the STARK / LogUp / FRI argument behind "an accepted proof attests a satisfying assignment" is a cryptographic statement no per-function contract here can state; '
                         'its contract-expressible parts are decided elsewhere: bus roles C09 (whose finding C09-alias-double-creator is also a C04 violation), row relations C11, metadata C16')

