"""property -> deciding units / harnesses"""
PROPS = {
    'C02': {'units': ['opt'], 'kani': []},
}
