"""property -> deciding units / harnesses"""
PROPS = {
    'C02': {'units': ['opt'], 'kani': [], 'exclude': r'H_dup_out_unmentioned'},
    'C03': {'units': ['opt'], 'kani': []},
}
