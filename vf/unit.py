"""Unit = one single-file Verus program: prelude text + mechanically extracted
real functions with contracts spliced in.  Units are described by the python
modules under /verif/units; this file only provides the splice operations."""
import re

from .extract import ExtractError, Extracted, extract_fn, match_brace, _split_stmts


def flex(s: str) -> str:
    """literal -> regex tolerant to whitespace/line-wrapping differences"""
    toks = re.findall(r'\w+|[^\w\s]', s)
    return r'\s*'.join(re.escape(t) for t in toks)


def _find_all(pat, text):
    return list(re.finditer(flex(pat), text))


class Fn:
    def __init__(self, unit, ex: Extracted, qual: str):
        self.unit, self.ex, self.qual = unit, ex, qual
        self.sig = ex.sig
        self.body = ex.body
        self.req, self.ens, self.dec = [], [], None
        self.retname = 'ret'
        self.rewrites = []      # (rule, old, new) applied to executable text
        self.spec_inserts = 0
        self.attrs = []
        self.exec = True

    # ---- executable-text rewrites (logged, listed in evidence) ----
    def rewrite(self, rule, old, new, count=1, where='body'):
        text = self.body if where == 'body' else self.sig
        ms = _find_all(old, text)
        if len(ms) != count:
            raise ExtractError(f"lost anchor in {self.qual} ({where}): rewrite {rule} `{old[:60]}` matched {len(ms)}x, expected {count}")
        for m in reversed(ms):
            text = text[:m.start()] + new + text[m.end():]
        if where == 'body':
            self.body = text
        else:
            self.sig = text
        self.rewrites.append((rule, ' '.join(old.split()), ' '.join(new.split())))
        return self

    def rewrite_re(self, rule, pat, repl, where='body', min_count=0, flags_dotall=False):
        text = self.body if where == 'body' else self.sig
        new, n = re.subn(pat, repl, text, flags=re.S if flags_dotall else 0)
        if n < min_count:
            raise ExtractError(f"lost anchor in {self.qual}: regex rewrite {rule} /{pat}/ matched {n}x")
        if n:
            self.rewrites.append((rule, f'/{pat}/ x{n}', repl if isinstance(repl, str) else '<fn>'))
        if where == 'body':
            self.body = new
        else:
            self.sig = new
        return self

    def iter_mut_to_index(self, pat, expr, idx, nth=0):
        """R5: `for PAT in EXPR.iter_mut() {` -> `for IDX in IDX_it: 0..EXPR.len() { let PAT = &mut EXPR[IDX];`"""
        old = f'for {pat} in {expr}.iter_mut() {{'
        ms = _find_all(old, self.body)
        if len(ms) <= nth:
            raise ExtractError(f"lost anchor in {self.qual}: `{old}` matched {len(ms)}x")
        m = ms[nth]
        new = f'for {idx} in {idx}_it: 0..{expr}.len() {{ let {pat} = &mut {expr}[{idx}];'
        self.body = self.body[:m.start()] + new + self.body[m.end():]
        self.rewrites.append(('R5', old, new))
        return self

    def annotate_closure(self, closure, params, ret, spec, nth=0):
        """spec-only: give a closure literal `|x| BODY` an explicit signature and contract"""
        ms = _find_all(closure, self.body)
        if len(ms) <= nth:
            raise ExtractError(f"lost anchor in {self.qual}: closure `{closure}` matched {len(ms)}x")
        m = ms[nth]
        body = closure[closure.rindex('|') + 1:].strip()
        new = f'|{params}| -> ({ret}) {spec} {{ {body} }}'
        self.body = self.body[:m.start()] + new + self.body[m.end():]
        self.spec_inserts += 1
        return self

    def set_sig(self, rule, new, drop_self=False, sliced=False):
        """R11: replace the generic header (type parameters / bounds / where clause) by its erased form.
        The parameter NAMES and their order must be unchanged; this is checked."""
        def names(sig):
            m = re.search(r'\((.*)\)\s*(->|where|$)', sig, flags=re.S)
            inner = sig[sig.index('(', sig.index('fn ')):]
            inner = inner[1:match_brace(inner, 0)]
            out, depth, cur = [], 0, ''
            for ch in inner:
                if ch in '(<[':
                    depth += 1
                elif ch in ')>]':
                    depth -= 1
                if ch == ',' and depth == 0:
                    out.append(cur)
                    cur = ''
                else:
                    cur += ch
            out.append(cur)
            return [re.sub(r'^(mut\s+)?', '', x.split(':')[0].strip().lstrip('&').strip()) for x in out if x.strip()]
        old = self.sig
        on = names(old)
        if drop_self and on and on[0] == 'self':
            if re.search(r'\bself\b', self.body):
                raise ExtractError(f'{self.qual}: body uses self, cannot drop the receiver')
            on = on[1:]
        if sliced:
            on = names(new)   # slice extraction (R13): locals bound by the dropped prefix become parameters; logged
        if on != names(new):
            raise ExtractError(f"signature of {self.qual} changed: parameters {names(old)} vs contract {names(new)}")
        self.rewrites.append((rule, old, ' '.join(new.split())))
        self.sig = ' '.join(new.split())
        return self

    def sig_rewrite(self, rule, old, new, count=1):
        return self.rewrite(rule, old, new, count, where='sig')

    # ---- contracts ----
    def requires(self, label, text):
        self.req.append((label, ' '.join(text.split())))
        return self

    def ensures(self, label, text):
        self.ens.append((label, ' '.join(text.split())))
        return self

    def decreases(self, text):
        self.dec = text
        return self

    def ret(self, name):
        self.retname = name
        return self

    def attr(self, a):
        self.attrs.append(a)
        return self

    def _loop_open(self, anchor, nth=0):
        ms = _find_all(anchor, self.body)
        if len(ms) <= nth:
            raise ExtractError(f"lost anchor in {self.qual}: loop header `{anchor[:60]}` matched {len(ms)}x")
        i = ms[nth].end() - 1
        # if anchor itself ends with '{' use that brace, else scan forward
        if self.body[i] != '{':
            i += 1
            while self.body[i] != '{':
                if self.body[i] in '([':
                    i = match_brace(self.body, i)
                i += 1
        return i

    def loop(self, anchor, invariants=(), decreases=None, ensures=(), nth=0, invariant_except_break=()):
        """attach a loop contract to the loop whose header contains `anchor`"""
        i = self._loop_open(anchor, nth)
        parts = []
        if invariant_except_break:
            parts.append('invariant_except_break')
            for (lab, c) in invariant_except_break:
                parts.append(f'    {" ".join(c.split())}, // @@I:{lab}')
        if invariants:
            parts.append('invariant')
            for (lab, c) in invariants:
                parts.append(f'    {" ".join(c.split())}, // @@I:{lab}')
        if ensures:
            parts.append('ensures')
            for (lab, c) in ensures:
                parts.append(f'    {" ".join(c.split())}, // @@I:{lab}')
        if decreases is not None:
            parts.append(f'decreases {decreases}, // @@D:loop')
        ins = '\n' + '\n'.join(parts) + '\n'
        self.body = self.body[:i] + ins + self.body[i:]
        self.spec_inserts += 1
        return self

    def before(self, anchor, text, nth=0):
        ms = _find_all(anchor, self.body)
        if len(ms) <= nth:
            raise ExtractError(f"lost anchor in {self.qual}: `{anchor[:60]}` matched {len(ms)}x")
        i = ms[nth].start()
        self.body = self.body[:i] + text + '\n' + self.body[i:]
        self.spec_inserts += 1
        return self

    def after(self, anchor, text, nth=0):
        ms = _find_all(anchor, self.body)
        if len(ms) <= nth:
            raise ExtractError(f"lost anchor in {self.qual}: `{anchor[:60]}` matched {len(ms)}x")
        i = ms[nth].end()
        self.body = self.body[:i] + '\n' + text + '\n' + self.body[i:]
        self.spec_inserts += 1
        return self

    def after_enclosing_block(self, anchor, text, nth=0):
        """insert spec text right after the `}` that closes the block containing `anchor`"""
        ms = _find_all(anchor, self.body)
        if len(ms) <= nth:
            raise ExtractError(f"lost anchor in {self.qual}: `{anchor[:60]}` matched {len(ms)}x")
        i, depth = ms[nth].end(), 0
        while i < len(self.body):
            c = self.body[i]
            if c in '{([':
                i = match_brace(self.body, i)
            elif c == '}':
                break
            i += 1
        self.body = self.body[:i + 1] + '\n' + text + '\n' + self.body[i + 1:]
        self.spec_inserts += 1
        return self

    def bind_tail(self, name, after_text, before_text=''):
        """spec-only: `TAIL_EXPR }` -> `before; let name = TAIL_EXPR; after; name }` (structural: no text of the tail is matched)"""
        inner = self.body[1:-1]
        stmts = _split_stmts(inner)
        if not stmts or stmts[-1].strip().endswith(';') or not stmts[-1].strip():
            raise ExtractError(f"lost anchor in {self.qual}: function has no tail expression")
        tail = stmts[-1].strip()
        self.body = '{' + ''.join(stmts[:-1]) + '\n' + before_text + f'\nlet {name} = {tail};\n' + after_text + f'\n{name}\n}}'
        self.spec_inserts += 1
        return self

    def pin_call_args(self, prefix, pins):
        """spec-only: the n-th statement `PREFIX(ARG);` becomes `{ let e_ = ARG; proof { assert(SPEC_n(e_)); } PREFIX(e_); }`.
        Occurrences are taken in textual order, no text of ARG is matched; surplus occurrences stay unpinned."""
        ms = _find_all(prefix, self.body)
        n = min(len(ms), len(pins))
        for k in reversed(range(n)):
            i = ms[k].end() - 1
            assert self.body[i] == '(', 'prefix must end with ('
            j = match_brace(self.body, i)
            arg = self.body[i + 1:j].strip().rstrip(',')
            e = j + 1
            while self.body[e] in ' \n\t':
                e += 1
            if self.body[e] != ';':
                raise ExtractError(f"lost anchor in {self.qual}: `{prefix}` occurrence {k} is not a statement")
            label, spec = pins[k]
            new = f"{{ let e_ = {arg}; proof {{ assert({spec}); // @@A:{label}\n }} {prefix}e_); }}"
            self.body = self.body[:ms[k].start()] + new + self.body[e + 1:]
            self.spec_inserts += 1
        self.rewrites.append(('SPEC-bind-arg', f'{n} of {len(ms)} `{prefix}..)` statements: argument bound to a local and pinned by an assert', ''))
        return self

    def pin_call_args_keyed(self, prefix, pins):
        """spec-only: every statement `PREFIX(ARG);` whose ARG (whitespace-collapsed) matches the key regex of a pin (first match wins) becomes
        `{ let e_ = ARG; proof { assert(SPEC(e_)); } PREFIX(e_); }`; the key only SELECTS which spec applies -- a call matching no key stays unpinned
        (its effect is then whatever the callee's contract says, and the enclosing proof fails if that is not what the spec needs)."""
        ms = _find_all(prefix, self.body)
        used = []
        for k in reversed(range(len(ms))):
            i = ms[k].end() - 1
            assert self.body[i] == '(', 'prefix must end with ('
            j = match_brace(self.body, i)
            arg = self.body[i + 1:j].strip().rstrip(',')
            flat = re.sub(r'\s+', ' ', arg)
            hit = next(((lab, spec) for lab, key, spec in pins if re.search(key, flat)), None)
            if hit is None:
                continue
            e = j + 1
            while self.body[e] in ' \n\t':
                e += 1
            if self.body[e] != ';':
                continue
            label, spec = hit
            new = f"{{ let e_ = {arg}; proof {{ assert({spec}); // @@A:{label}\n }} {prefix}e_); }}"
            self.body = self.body[:ms[k].start()] + new + self.body[e + 1:]
            self.spec_inserts += 1
            used.append(label)
        self.rewrites.append(('SPEC-bind-arg', f'{len(used)} of {len(ms)} `{prefix}..)` statements: argument bound to a local and pinned by an assert (selected by gate name)', ''))
        return used

    def loop_ordinal_enclosing(self, hdr, marker):
        """ordinal (among the textual occurrences of `hdr`) of the innermost loop with head `hdr` whose body contains `marker`; None if there is none"""
        pos = self.body.find(marker)
        if pos < 0:
            return None
        best = None
        for n, m in enumerate(_find_all(hdr, self.body)):
            o = self.body.index('{', m.end())
            c = match_brace(self.body, o)
            if o < pos < c:
                best = n
        return best

    def at_loop_end(self, loop_anchor, text, nth=0):
        """spec-only: insert text at the end of the body of the loop whose header contains `loop_anchor`"""
        i = self._loop_open(loop_anchor, nth)
        j = match_brace(self.body, i)
        self.body = self.body[:j] + '\n' + text + '\n' + self.body[j:]
        self.spec_inserts += 1
        return self

    def at_enclosing_block_end(self, anchor, text, nth=0):
        """spec-only: insert text just before the `}` that closes the block containing `anchor`"""
        ms = _find_all(anchor, self.body)
        if len(ms) <= nth:
            raise ExtractError(f"lost anchor in {self.qual}: `{anchor[:60]}` matched {len(ms)}x")
        i = ms[nth].end()
        while i < len(self.body):
            c = self.body[i]
            if c in '{([':
                i = match_brace(self.body, i)
            elif c == '}':
                break
            i += 1
        self.body = self.body[:i] + '\n' + text + '\n' + self.body[i:]
        self.spec_inserts += 1
        return self

    def at_start(self, text):
        self.body = '{\n' + text + '\n' + self.body[1:]
        self.spec_inserts += 1
        return self

    def at_end_expr(self, expr, text):
        """insert spec text before the function's tail expression `expr`"""
        m = re.search(flex(expr) + r'\s*\}\s*$', self.body)
        if not m:
            raise ExtractError(f"lost anchor in {self.qual}: tail expression `{expr}`")
        self.body = self.body[:m.start()] + text + '\n' + self.body[m.start():]
        self.spec_inserts += 1
        return self

    def erase_error_messages(self, ctor, stub='errmsg()'):
        """R8: the String argument of an error constructor (`.to_string()` / `format!(..)`) -> opaque stub"""
        n = 0
        pos = 0
        while True:
            m = re.search(re.escape(ctor) + r'\s*\(', self.body[pos:])
            if not m:
                break
            o = pos + m.end() - 1
            c = match_brace(self.body, o)
            self.body = self.body[:o + 1] + stub + self.body[c:]
            pos = o + 1
            n += 1
        if n:
            self.rewrites.append(('R8', f'{n}x message argument of {ctor}(..)', stub))
        return self

    def erase_struct_error(self, ctor, stub):
        """R8: a struct-literal error value `CTOR { field: <message>, .. }` (messages built with format!/into) -> opaque stub constructor call"""
        n = 0
        while True:
            m = re.search(re.escape(ctor) + r'\s*\{', self.body)
            if not m:
                break
            c = match_brace(self.body, m.end() - 1)
            self.body = self.body[:m.start()] + stub + self.body[c + 1:]
            n += 1
        if n:
            self.rewrites.append(('R8', f'{n}x error literal {ctor} {{ .. }}', stub))
        return self

    def erase_macro(self, name):
        """R8: remove every `name!( ... );` statement (tracing / logging)"""
        n = 0
        while True:
            m = re.search(re.escape(name) + r'\s*\(', self.body)
            if not m:
                break
            c = match_brace(self.body, m.end() - 1)
            e = c + 1
            while e < len(self.body) and self.body[e] in ' \n\t':
                e += 1
            if e < len(self.body) and self.body[e] == ';':
                e += 1
            self.body = self.body[:m.start()] + self.body[e:]
            n += 1
        if n:
            self.rewrites.append(('R8', f'{n}x {name}(..) statement', 'erased'))
        return self

    def truncate_after_next_stmt(self, anchor, tail, why):
        """R13 prefix extraction: keep the body through the statement that FOLLOWS `anchor` (whatever its text), drop the rest"""
        ms = _find_all(anchor, self.body)
        if len(ms) != 1:
            raise ExtractError(f"lost anchor in {self.qual}: truncate_after_next_stmt `{anchor[:60]}` matched {len(ms)}x")
        rest = self.body[ms[0].end():-1]
        stmts = _split_stmts(rest)
        if not stmts:
            raise ExtractError(f"{self.qual}: no statement after `{anchor[:40]}`")
        keep = ms[0].end() + len(stmts[0])
        dropped = len(self.body) - keep
        self.body = self.body[:keep] + '\n' + tail + '\n}'
        self.rewrites.append(('R13', f'function body truncated after the statement following `{" ".join(anchor.split())}` ({dropped} chars dropped)', why))
        return self

    def drop_prefix_before(self, anchor, why):
        """R13 slice extraction: keep the body FROM `anchor` on; the dropped prefix only binds the locals that the new signature takes as parameters"""
        ms = _find_all(anchor, self.body)
        if len(ms) != 1:
            raise ExtractError(f"lost anchor in {self.qual}: drop_prefix_before `{anchor[:60]}` matched {len(ms)}x")
        dropped = ms[0].start()
        self.dropped_prefix = self.body[:ms[0].start()]
        self.body = '{\n' + self.body[ms[0].start():]
        self.rewrites.append(('R13', f'function body starts at `{" ".join(anchor.split())}` ({dropped} chars of prefix dropped)', why))
        return self

    def prefix_locals_used(self, known=()):
        """R13: the plain `let NAME = INIT;` locals of a dropped prefix that the kept slice mentions (and `known` does not list), with their initialisers --
        the caller turns them into parameters of the slice (an unconstrained value of the local's type) or reports the slice as out of reach"""
        out = []
        for m in re.finditer(r'\blet\s+(?:mut\s+)?([a-z_]\w*)\s*(?::\s*([^=;]+?))?\s*=\s*([^;]*);', getattr(self, 'dropped_prefix', '')):
            nm = m.group(1)
            if nm in known or nm in [o[0] for o in out]:
                continue
            if re.search(r'(?<![.\w])' + re.escape(nm) + r'\b', self.body):
                out.append((nm, (m.group(2) or '').strip(), m.group(3).strip()))
        return out

    def truncate_after(self, anchor, tail, why):
        """R13 prefix extraction: keep the body up to and including `anchor`, drop the rest, end with `tail`.
        Only sound for contracts about the state at that point; the dropped suffix is named in the evidence."""
        ms = _find_all(anchor, self.body)
        if len(ms) != 1:
            raise ExtractError(f"lost anchor in {self.qual}: truncate_after `{anchor[:60]}` matched {len(ms)}x")
        dropped = len(self.body) - ms[0].end()
        self.body = self.body[:ms[0].end()] + '\n' + tail + '\n}'
        self.rewrites.append(('R13', f'function body truncated after `{" ".join(anchor.split())}` ({dropped} chars dropped)', why))
        return self

    def at_end(self, text):
        """insert before the final closing brace (only valid when the body ends in a statement)"""
        self.body = self.body[:-1] + '\n' + text + '\n}'
        self.spec_inserts += 1
        return self

    def render(self, vis='pub'):
        sig = self.sig
        # R12: name the return value
        m = re.search(r'\)\s*->\s*(.+?)(\s+where\b.*)?$', sig)
        if m and not re.match(r'\(\s*\w+\s*:', m.group(1)):
            sig = sig[:m.start()] + f') -> ({self.retname}: {m.group(1)})' + (m.group(2) or '')
        sig = re.sub(r'^(pub(\([a-z]+\))?\s+)?(const\s+)?', '', sig)
        lines = [f'// @@FN:{self.qual}  <- {self.ex.file}:{self.ex.line}']
        for a in self.attrs:
            lines.append(a)
        lines.append(f'{vis} {sig}'.strip())
        if self.req:
            lines.append('    requires')
            for lab, c in self.req:
                lines.append(f'        {c}, // @@R:{lab}')
        if self.ens:
            lines.append('    ensures')
            for lab, c in self.ens:
                lines.append(f'        {c}, // @@E:{lab}')
        if self.dec:
            lines.append(f'    decreases {self.dec}, // @@D:fn')
        lines.append(self.body)
        lines.append(f'// @@ENDFN:{self.qual}')
        return '\n'.join(lines)

    def describe(self):
        return {
            'function': self.qual,
            'source': f'{self.ex.file}:{self.ex.line}',
            'sha256': self.ex.sha256,
            'extraction_log': [f'{r}: {d}' for r, d in self.ex.log],
            'rewrites': [f'{r}: `{o}` -> `{n}`' for r, o, n in self.rewrites],
            'contract_clauses': len(self.req) + len(self.ens),
        }


CANARY = """
verus! {
// vacuity guard: this lemma MUST fail; if it verifies the unit's axioms are inconsistent.
proof fn __canary() // @@FN:__canary
    ensures false, // @@E:false
{}
// @@ENDFN:__canary
}
fn main() {}
"""


class Unit:
    """A Verus single-file unit under construction."""

    def __init__(self, name, props):
        self.name = name
        self.props = props          # property ids this unit serves
        self.chunks = []
        self.fns = []
        self.cfgs = {'debug_assertions': True, 'test': False, 'feature="debugging"': False, 'feature="profiling"': False}
        self.assumptions = []       # free-text standing assumptions of this unit
        self.tag_props = {}         # obligation-id regex -> [props]  (default: all unit props)
        self.rlimit = 30

    def text(self, s):
        self.chunks.append(s)
        return self

    def extract(self, relpath, container, name, qual=None) -> Fn:
        ex = extract_fn(relpath, container, name, self.cfgs)
        f = Fn(self, ex, qual or name)
        self.fns.append(f)
        return f

    def extract_impl_or_default(self, impl_path, impl_container, trait_path, trait_container, name, qual=None) -> Fn:
        """the method as the implementor runs it: its override in the impl block if there is one, else the trait's provided (default) body"""
        try:
            return self.extract(impl_path, impl_container, name, qual)
        except ExtractError as e:
            if 'matched 0 items' not in str(e):
                raise
        f = self.extract(trait_path, trait_container, name, qual)
        f.rewrites.append(('R12', f'provided method `{name}` of the trait (no override in the impl)', 'emitted as an inherent method of the implementor'))
        return f

    def emit(self, f: Fn, vis='pub'):
        self.chunks.append(('FN', f, vis))
        return self

    def assume(self, s):
        self.assumptions.append(s)
        return self

    def render(self):
        out = []
        for c in self.chunks:
            if isinstance(c, tuple):
                out.append(c[1].render(c[2]))
            else:
                out.append(c)
        out.append(CANARY)
        txt = '\n'.join(out) + '\n'
        # an H-marker assertion (an open finding: it FAILS on the unchanged tree) must not leak into the obligations after it: the verifier assumes a failed assertion,
        # and a marker that is plainly false in its context would discharge everything that follows vacuously.  Each is checked in a sub-proof that exports nothing.
        import os as _os
        if _os.environ.get('VERIF_POISON_PROBE'):       # development probe: `assert(false)` right after every H-marker assertion must FAIL (be reported), else the marker is plainly false in its context
            txt = re.sub(r'^([ \t]*)(assert\(.*\);[ \t]*// @@A:H_\w+)[ \t]*$', r'\1\2\n\1assert(true) by { assert(false); } // @@A:POISON_PROBE', txt, flags=re.M)
        elif getattr(self, 'isolate_h', False):
            txt = re.sub(r'^([ \t]*)assert\((.*)\);[ \t]*// @@A:(H_\w+)[ \t]*$', r'\1assert(true) by { assert(\2); } // @@A:\3', txt, flags=re.M)
        return txt


# ---------------------------------------------------------------------------------------------------------------------
# generic normalisers added for unit dsu (usable by any unit)
def _split_top_level_and(cond):
    parts, depth, cur, i = [], 0, '', 0
    while i < len(cond):
        ch = cond[i]
        if ch in '([{':
            depth += 1
        elif ch in ')]}':
            depth -= 1
        if depth == 0 and cond.startswith('&&', i):
            parts.append(cur.strip())
            cur = ''
            i += 2
            continue
        cur += ch
        i += 1
    parts.append(cur.strip())
    return parts


def normalize_let_chains(fn):
    """R4 (generic): `if C1 && let P = E && C2 { B }` / `if let P = E && C { B }` (no else) -> nested `if C1 { if let P = E { if C2 { B } } }`"""
    n = 0
    pos = 0
    while True:
        m = re.search(r'\bif\b((?=[^{};]*\blet\b)[^{};]*?&&[^{};]*?)\{', fn.body[pos:])
        if not m:
            break
        start = pos + m.start()
        open_ = pos + m.end() - 1
        close = match_brace(fn.body, open_)
        after = fn.body[close + 1:].lstrip()
        if after.startswith('else'):
            pos = open_ + 1
            continue
        parts = _split_top_level_and(m.group(1))
        head = ' '.join(('if ' + p + ' {') for p in parts)
        fn.body = fn.body[:start] + head + fn.body[open_ + 1:close] + '}' * len(parts) + fn.body[close + 1:]
        pos = start + len(head)
        n += 1
    if n:
        fn.rewrites.append(('R4', f'{n} let-chain `if .. && let .. {{ B }}` unfolded into nested ifs (conditions and B verbatim)', ''))
    return fn


def normalize_while_let_some_ref(fn):
    """R4 (generic): `while let Some(&P) = E { B }` -> `loop { let o_ = match E { Some(x_) => Some(*x_), None => None }; match o_ { Some(P) => { B } None => { break; } } }`"""
    n = 0
    while True:
        m = re.search(r'while let Some\(&(\w+)\) = ([^{]+?)\s*\{', fn.body)
        if not m:
            break
        open_ = m.end() - 1
        close = match_brace(fn.body, open_)
        body = fn.body[open_ + 1:close]
        new = (f'loop {{ let o_ = match {m.group(2).strip()} {{ Some(x_) => Some(*x_), None => None }}; match o_ {{ Some({m.group(1)}) => {{ {body} }} None => {{ break; }} }} }}')
        fn.body = fn.body[:m.start()] + new + fn.body[close + 1:]
        n += 1
    if n:
        fn.rewrites.append(('R4', f'{n} `while let Some(&p) = E {{ B }}` -> loop + match (E and B verbatim)', ''))
    return fn


def arm_bounds(fn, arm_head, nth=0):
    """(open, close) brace positions of the block of the nth match arm whose head text is `arm_head` (e.g. `Some(p) => {`)"""
    ms = _find_all(arm_head, fn.body)
    if len(ms) <= nth:
        raise ExtractError(f"lost anchor in {fn.qual}: arm `{arm_head}` matched {len(ms)}x")
    open_ = ms[nth].end() - 1
    return open_, match_brace(fn.body, open_)


# ====================================================================================================================
# general iterator-chain normalisers (R5/R6): every closure BODY is kept verbatim; only the loop skeleton is generated
# ====================================================================================================================
_COLLECT = r'\s*\.(collect_vec\(\)|collect::<Vec<_>>\(\)|collect\(\))'


def _closure_after(body, open_paren):
    """(params, body_text, close_paren) of the closure that is the sole argument of the call whose '(' is at open_paren"""
    close = match_brace(body, open_paren)
    inner = body[open_paren + 1:close]
    m = re.match(r'\s*(move\s+)?\|([^|]*)\|\s*', inner, flags=re.S)
    if not m:
        raise ExtractError('closure expected')
    return m.group(2).strip(), inner[m.end():].strip().rstrip(',').strip(), close


def unmap_iter_collect_general(f):
    """R6: `VEC.iter().map(|P| BODY).collect*()`  and  `VEC.iter().enumerate().map(|(I, P)| BODY).collect*()`  -> loop pushing BODY.
    P is `x` (binds `&VEC[i]`) or `&x` (binds `VEC[i]`, a copy)."""
    n = 0
    while True:
        m = re.search(r'(\w+(?:\s*\.\s*\w+)*)\s*\.\s*iter\(\)\s*(\.enumerate\(\)\s*)?\.map(\()', f.body)
        if not m:
            break
        try:
            params, cbody, close = _closure_after(f.body, m.start(3))
        except ExtractError:
            break
        m2 = re.match(_COLLECT, f.body[close + 1:])
        if not m2:
            break
        vec, enum = ''.join(m.group(1).split()), bool(m.group(2))
        k = f'm{n}_'
        if enum:
            pm = re.match(r'\(\s*(\w+)\s*,\s*(&?)\s*(\w+)\s*\)$', params)
            if not pm:
                break
            idx, amp, name = pm.group(1), pm.group(2), pm.group(3)
            bind = f'let {name} = {"" if amp else "&"}{vec}[{idx}];'
            head = f'for {idx} in 0..{vec}.len()'
        else:
            pm = re.match(r'(&?)\s*(\w+)$', params)
            if not pm:
                break
            amp, name = pm.group(1), pm.group(2)
            bind = f'let {name} = {"" if amp else "&"}{vec}[{k}];'
            head = f'for {k} in 0..{vec}.len()'
        new = f'{{ let mut v_{k} = Vec::new(); {head} {{ {bind} let x_{k} = {cbody}; v_{k}.push(x_{k}); }} v_{k} }}'
        f.body = f.body[:m.start()] + new + f.body[close + 1 + m2.end():]
        n += 1
    if n:
        f.rewrites.append(('R6', f'{n}x `VEC.iter()[.enumerate()].map(|P| BODY).collect*()` -> loop pushing BODY', ''))
    return f


def unrange_map_collect_general(f):
    """R6: `(LO..HI).map(|i| BODY).collect*()` -> loop pushing BODY"""
    n = 0
    while True:
        m = re.search(r'\((\w+)\.\.([\w.()]+)\)\s*\.map(\()', f.body)
        if not m:
            break
        try:
            params, cbody, close = _closure_after(f.body, m.start(3))
        except ExtractError:
            break
        m2 = re.match(_COLLECT, f.body[close + 1:])
        if not m2 or not re.match(r'\w+$', params):
            break
        k = f'r{n}_'
        if params == '_':
            params = f'i_{k}'
        new = f'{{ let mut v_{k} = Vec::new(); for {params} in {m.group(1)}..{m.group(2)} {{ let x_{k} = {cbody}; v_{k}.push(x_{k}); }} v_{k} }}'
        f.body = f.body[:m.start()] + new + f.body[close + 1 + m2.end():]
        n += 1
    if n:
        f.rewrites.append(('R6', f'{n}x `(LO..HI).map(|i| BODY).collect*()` -> loop pushing BODY', ''))
    return f


def unenumerate_filter_fold(f):
    """R6: `VEC.iter().enumerate().filter(|&(J, _)| COND).fold(INIT, |ACC, (_, &X)| BODY)` -> `{ let mut ACC = INIT; for J in 0..VEC.len() { let X = VEC[J]; if COND { ACC = BODY; } } ACC }`"""
    n = 0
    while True:
        m = re.search(r'([\w.]+)\s*\.iter\(\)\s*\.enumerate\(\)\s*\.filter(\()', f.body)
        if not m:
            break
        params, cond, close = _closure_after(f.body, m.start(2))
        pm = re.match(r'&\(\s*(\w+)\s*,\s*_\s*\)$', params)
        m2 = re.match(r'\s*\.fold(\()', f.body[close + 1:])
        if not pm or not m2:
            break
        fopen = close + 1 + m2.start(1)
        fclose = match_brace(f.body, fopen)
        inner = f.body[fopen + 1:fclose]
        mi = re.match(r'\s*(.*?),\s*\|\s*(\w+)\s*,\s*\(\s*_\s*,\s*(&?)\s*(\w+)\s*\)\s*\|\s*(.*)$', inner, flags=re.S)
        if not mi:
            break
        init, acc, amp, x, body = mi.group(1).strip(), mi.group(2), mi.group(3), mi.group(4), mi.group(5).strip().rstrip(',').strip()
        j, vec = pm.group(1), m.group(1)
        new = f'{{ let mut {acc} = {init}; for {j} in 0..{vec}.len() {{ let {x} = {"" if amp else "&"}{vec}[{j}]; if {cond} {{ {acc} = {body}; }} }} {acc} }}'
        f.body = f.body[:m.start()] + new + f.body[fclose + 1:]
        n += 1
    if n:
        f.rewrites.append(('R6', f'{n}x `VEC.iter().enumerate().filter(|&(j, _)| COND).fold(INIT, |acc, (_, &x)| BODY)` -> guarded accumulation loop', ''))
    return f


def split_or_pattern_guard_arms(f):
    """R4: a match arm `P1 | P2 if G => BODY` (or-pattern together with a guard: outside the verifier's dialect) -> `P1 if G => BODY, P2 if G => BODY`"""
    n = 0
    pos = 0
    while True:
        m = re.search(r'=>', f.body[pos:])
        if not m:
            break
        arrow = pos + m.start()
        # arm head: from the previous arm end (`,` / `{` / `}` at the same depth) to the arrow
        depth, i = 0, arrow - 1
        while i >= 0:
            ch = f.body[i]
            if ch in ')]}':
                depth += 1
            elif ch in '([{':
                if depth == 0:
                    break
                depth -= 1
            elif ch == ',' and depth == 0:
                break
            i -= 1
        head = f.body[i + 1:arrow]
        mg = re.search(r'\bif\b', head)
        pat = head[:mg.start()] if mg else head
        # top-level `|` in the pattern
        parts, d2, cur = [], 0, ''
        for ch in pat:
            if ch in '([{':
                d2 += 1
            elif ch in ')]}':
                d2 -= 1
            if ch == '|' and d2 == 0:
                parts.append(cur)
                cur = ''
            else:
                cur += ch
        parts.append(cur)
        if mg and len(parts) > 1 and all(p.strip() for p in parts):
            guard = head[mg.start():]
            # arm body: block or expression up to the top-level comma
            j = arrow + 2
            while f.body[j] in ' \n\t':
                j += 1
            if f.body[j] == '{':
                end = match_brace(f.body, j) + 1
                body = f.body[j:end]
                if end < len(f.body) and f.body[end] == ',':
                    end += 1
            else:
                d3, end = 0, j
                while end < len(f.body):
                    ch = f.body[end]
                    if ch in '([{':
                        d3 += 1
                    elif ch in ')]}':
                        if d3 == 0:
                            break
                        d3 -= 1
                    elif ch == ',' and d3 == 0:
                        break
                    end += 1
                body = f.body[j:end]
                if end < len(f.body) and f.body[end] == ',':
                    end += 1
            new = ' '.join(f'{p.strip()} {guard.strip()} => {body},' for p in parts)
            f.body = f.body[:i + 1] + ' ' + new + f.body[end:]
            pos = i + 1 + len(new)
            n += 1
        else:
            pos = arrow + 2
    if n:
        f.rewrites.append(('R4', f'{n} match arm(s) `P1 | P2 if G => B` split into one guarded arm per alternative (B verbatim)', ''))
    return f


# ====================================================================================================================
# iterator-pipeline compiler (R6): `SRC (.flat_map(|p| E) | .map(|p| E) | .copied() | .chain(I))* .collect()`  ->  nested loops
# filling a fresh vector.  Closure bodies E are kept verbatim; a Vec-valued E at the end of a pipeline is appended as a whole.
# ====================================================================================================================
def _split_method_chain(expr):
    """split `recv.m1(..).m2(..)` at depth 0 into [recv, ('m1', args), ('m2', args), ...]; recv may contain `::`, `&`, field accesses and calls"""
    expr = expr.strip()
    parts, depth, i, cur = [], 0, 0, ''
    segs = []
    while i < len(expr):
        ch = expr[i]
        if ch in '([{':
            j = match_brace(expr, i)
            cur += expr[i:j + 1]
            i = j + 1
            continue
        if ch == '.' and depth == 0 and re.match(r'\.\s*[A-Za-z_]\w*\s*(::<[^>]*>)?\s*\(', expr[i:]):
            segs.append(cur)
            cur = ''
            i += 1
            continue
        cur += ch
        i += 1
    segs.append(cur)
    head = segs[0].strip()
    calls = []
    for s_ in segs[1:]:
        s_ = s_.strip()
        m = re.match(r'([A-Za-z_]\w*)\s*(::<[^>]*>)?\s*\(', s_)
        o = m.end() - 1
        c = match_brace(s_, o)
        calls.append((m.group(1), s_[o + 1:c].strip().rstrip(',').strip()))
    return head, calls


_ITER_METHODS = {'iter', 'into_iter', 'flat_map', 'map', 'copied', 'chain', 'cloned', 'filter', 'enumerate', 'zip', 'flatten'}


def _is_iter_expr(expr):
    try:
        head, calls = _split_method_chain(expr)
    except Exception:
        return False
    names = [c[0] for c in calls]
    return bool(names) and all(n in _ITER_METHODS for n in names) and names[0] in ('iter', 'into_iter')


class _Gen:
    def __init__(self):
        self.n = 0
        self.used = set()

    def loop_var(self, src):
        """loop counter named after the iterated source (stable when pipeline segments are reordered)"""
        base = 'i_' + re.sub(r'\W+', '_', ''.join(src.split())).strip('_')[-48:]
        name, k = base, 1
        while name in self.used:
            k += 1
            name = f'{base}{k}'
        self.used.add(name)
        return name

    def fresh(self, p):
        self.n += 1
        return f'{p}{self.n - 1}_'


def _closure(arg):
    if re.match(r'\s*(Vec|<\[_\]>|\[_\])::len\s*$', arg):
        arg = '|x_| x_.len()'                     # a path to a method used as the closure
    m = re.match(r'\s*\|([^|]*)\|\s*(.*)$', arg, flags=re.S)
    if not m:
        raise ExtractError(f'closure expected in iterator pipeline: {arg[:40]}')
    pat = re.sub(r':\s*&?\[.*\]|:\s*[\w&<>: ,\[\];]+$', '', m.group(1).strip()).strip()   # drop a type annotation on the parameter
    body = m.group(2).strip()
    if body.startswith('{') and match_brace(body, 0) == len(body) - 1:
        inner = body[1:-1].strip()
        if ';' not in inner:
            body = inner
    return pat, body


def _bind(pat, elem_ref):
    """bind a closure parameter to an element reference expression (elem_ref has type &T)"""
    if pat.startswith('&'):
        return f'let {pat[1:].strip()} = *{elem_ref};'
    return f'let {pat} = {elem_ref};'


def _compile_iter(expr, sink, g, out):
    """sink(elem_ref_expr, is_ref) -> code consuming one element; returns code"""
    head, calls = _split_method_chain(expr)
    names = [c[0] for c in calls]
    # split at the LAST top-level chain: (prefix).chain(I2)
    if 'chain' in names:
        k = len(names) - 1 - names[::-1].index('chain')
        prefix = head + ''.join(f'.{n}({a})' for n, a in calls[:k])
        rest = calls[k + 1:]
        if rest:
            raise ExtractError('adaptor after .chain(..) is outside the pipeline compiler')
        return _compile_seg(prefix, sink, g) + ' ' + _compile_seg(calls[k][1], sink, g)
    return _compile_seg(expr, sink, g)


def _compile_seg(expr, sink, g):
    expr = expr.strip()
    if not _is_iter_expr(expr):
        # a Vec-valued expression: append as a whole when the sink allows it
        return sink(expr, 'vec')
    head, calls = _split_method_chain(expr)
    if 'chain' in [c[0] for c in calls]:
        return _compile_iter(expr, sink, g, None)
    src, adaptors = calls[0][0], calls[1:]
    i = g.loop_var(head)

    def consume(elem, kind, rest):
        # elem: expression; kind: 'ref' (a &T) or 'val'
        if not rest:
            return sink(elem, kind)
        (name, arg), tail = rest[0], rest[1:]
        if name in ('copied', 'cloned'):
            return consume(f'(*{elem})' if kind == 'ref' else elem, 'val', tail)
        if name == 'flatten':
            # items that are themselves vectors (by reference): one more loop level over `item.iter()`
            inner_sink = (lambda e, kd: consume(e, kd, tail)) if tail else sink
            return _compile_seg(f'{elem}.iter()', inner_sink, g)
        pat, body = _closure(arg)
        b = _bind(pat, elem) if kind == 'ref' else (f'let {pat[1:].strip() if pat.startswith("&") else pat} = {elem};')
        if name == 'filter':
            # the predicate sees a reference to the item: item type is &T for kind 'ref', T for kind 'val'
            amps = len(pat) - len(pat.lstrip('&'))
            nm = pat.lstrip('&').strip()
            have = 1 if kind == 'ref' else 0          # elem is a & (1) or a value (0); the closure parameter has one more &
            need = have + 1 - amps                    # number of & the bound name must carry
            if need < 0:
                raise ExtractError('filter pattern dereferences more than the item type allows')
            src_e = elem
            cur = have
            while cur > need:
                src_e = f'(*{src_e})'
                cur -= 1
            while cur < need:
                src_e = f'(&{src_e})'
                cur += 1
            return '{ let ' + nm + ' = ' + src_e + '; if ' + body + ' { ' + consume(elem, kind, tail) + ' } }'
        if name == 'map':
            return '{ ' + b + ' ' + consume(f'({body})', 'val', tail) + ' }'
        if name == 'flat_map':
            if tail:
                # further adaptors apply to the flattened stream
                inner_sink = lambda e, kd: consume(e, kd, tail)
            else:
                inner_sink = sink
            return '{ ' + b + ' ' + _compile_seg(body, inner_sink, g) + ' }'
        raise ExtractError(f'adaptor .{name}(..) is outside the pipeline compiler')

    if src == 'into_iter' and not adaptors:
        return sink(head, 'vec')        # an owned vector consumed as a whole
    if src == 'into_iter':
        # an owned vector consumed element by element; `.enumerate()` pairs each element with a running counter
        if adaptors and adaptors[0][0] == 'enumerate':
            return (f'{{ let mut c_{i}: usize = 0; for e_{i} in it_{i}: {head} {{ let en_{i} = (c_{i}, e_{i}); c_{i} = c_{i} + 1; '
                    f'{consume(f"en_{i}", "val", adaptors[1:])} }} }}')
        return f'for e_{i} in it_{i}: {head} {{ {consume(f"e_{i}", "val", adaptors)} }}'
    if src == 'iter' and adaptors and adaptors[0][0] == 'zip':
        # `A.iter().zip(B.iter())`: index loop over the common prefix; a following closure with a pair pattern binds its halves to &A[i] / &B[i]
        mz = re.match(r'\s*&?([\w.\[\]]+?)(\s*\.\s*iter\(\))?\s*$', adaptors[0][1])
        if not mz:
            raise ExtractError('zip argument is outside the pipeline compiler: ' + adaptors[0][1][:40])
        other = mz.group(1)
        rest = adaptors[1:]
        ea, eb = f'(&{head}[{i}])', f'(&{other}[{i}])'
        pre = f'let n_{i} = if {head}.len() <= {other}.len() {{ {head}.len() }} else {{ {other}.len() }}; for {i} in 0..n_{i} {{ '
        if rest and rest[0][0] in ('map', 'filter', 'flat_map'):
            pat, body = _closure(rest[0][1])
            halves = _split_top_commas(pat[1:-1]) if pat.startswith('(') and pat.endswith(')') else []
            if len(halves) == 2 and rest[0][0] == 'map':
                binds = f'let {halves[0]} = {ea}; let {halves[1]} = {eb};'
                return '{ ' + pre + '{ ' + binds + ' ' + consume(f'({body})', 'val', rest[1:]) + ' } } }'
        return '{ ' + pre + f'let zp_{i} = ({ea}, {eb}); ' + consume(f'zp_{i}', 'val', rest) + ' } }'
    if src == 'iter' and adaptors and adaptors[0][0] == 'enumerate':
        return f'for {i} in 0..{head}.len() {{ let en_{i} = ({i}, &{head}[{i}]); {consume(f"en_{i}", "val", adaptors[1:])} }}'
    if src == 'iter':
        return f'for {i} in 0..{head}.len() {{ let e_{i} = &{head}[{i}]; {consume(f"e_{i}", "ref", adaptors)} }}'
    w = g.fresh('w')
    return f'{{ let {w} = {head}; for {i} in 0..{w}.len() {{ let e_{i} = {w}[{i}]; {consume(f"e_{i}", "val", adaptors)} }} }}'


def uniter_collect(f):
    """R6: compile every `PIPELINE.collect()` whose pipeline uses flat_map / chain into loops over a fresh vector `v_`"""
    n = 0
    g = _Gen()
    while True:
        m = None
        for mm in re.finditer(r'\.\s*collect(?:::<Vec<_>>)?\(\)', f.body):
            # receiver: back to the statement start
            j = mm.start()
            depth, i = 0, j - 1
            while i >= 0:
                ch = f.body[i]
                if ch in ')]}':
                    depth += 1
                elif ch in '([{':
                    if depth == 0:
                        break
                    depth -= 1
                elif ch in ';=' and depth == 0:
                    break
                i -= 1
            recv = f.body[i + 1:j]
            if re.search(r'\.\s*(flat_map|chain|filter|zip)\s*\(', recv) and _is_iter_expr(recv.strip()):
                m = (i + 1, mm.end(), recv)
                break
        if not m:
            break
        st, en, recv = m
        v = f'v{n}_'

        def sink(elem, kind, v=v):
            if kind == 'vec':
                w = g.fresh('a')
                return f'let mut {w} = {elem}; {v}.append(&mut {w});'
            return f'{v}.push({elem});'
        code = _compile_iter(recv.strip(), sink, g, None)
        lead = recv[:len(recv) - len(recv.lstrip())]
        f.body = f.body[:st] + lead + f'{{ let mut {v} = Vec::new(); {code} {v} }}' + f.body[en:]
        n += 1
    if n:
        f.rewrites.append(('R6', f'{n} iterator pipeline(s) `SRC[.flat_map|.map|.copied|.chain]*.collect()` compiled to loops filling a fresh vector (closure bodies verbatim; Vec-valued tails appended whole)', ''))
    return f


def unget_copied_unwrap_or(f):
    """R6: `X.get(I).copied().unwrap_or(DFLT)` -> `(if I < X.len() { X[I] } else { DFLT })`"""
    n = 0
    pos = 0
    while True:
        m = re.compile(r'([\w.]+)\s*\.get(\()').search(f.body, pos)
        if not m:
            break
        close = match_brace(f.body, m.start(2))
        idx = f.body[m.start(2) + 1:close].strip()
        m2 = re.match(r'\s*\.copied\(\)\s*\.unwrap_or(\()', f.body[close + 1:])
        if not m2:
            pos = m.end()
            continue
        o2 = close + 1 + m2.start(1)
        c2 = match_brace(f.body, o2)
        dflt = f.body[o2 + 1:c2].strip()
        x = m.group(1)
        f.body = f.body[:m.start()] + f'(if {idx} < {x}.len() {{ {x}[{idx}] }} else {{ {dflt} }})' + f.body[c2 + 1:]
        n += 1
    if n:
        f.rewrites.append(('R6', f'{n}x `X.get(i).copied().unwrap_or(d)` -> bounds-checked index', ''))
    return f


def unhashset_collect(f):
    """R6/R7: `let NAME: HashSet<T> = SRC.into_iter().collect();` -> `let NAME: Vec<T> = hash_set_order(SRC);` — the set as the sequence of its elements
    in ITERATION order (each element once, order unspecified); sound for later uses that only iterate NAME.  The unit prelude must provide hash_set_order."""
    n = 0
    while True:
        m = re.search(r'let (mut )?(\w+): (?:hashbrown::|std::collections::)?HashSet<([^>]+)> = ([\w.]+)\s*\.into_iter\(\)\s*\.collect\(\);', f.body)
        if not m:
            break
        f.body = f.body[:m.start()] + f'let {m.group(1) or ""}{m.group(2)}: Vec<{m.group(3)}> = hash_set_order({m.group(4)});' + f.body[m.end():]
        n += 1
    if n:
        f.rewrites.append(('R6', f'{n}x `let s: HashSet<T> = v.into_iter().collect();` -> the set as its elements in (unspecified) iteration order', ''))
    return f


HASH_SET_ORDER_STUB = r'''
verus! {
/// the elements of `v` as a hash set would iterate them: each distinct element once, in an order the hash function chooses
#[verifier::external_body]
pub fn hash_set_order<T>(v: Vec<T>) -> (r: Vec<T>) ensures r@.no_duplicates(), r@.to_set() == v@.to_set() { unimplemented!() }
}
'''


def unmap_or(f):
    """R6: `RECV.map_or(DFLT, |x| BODY)` -> `(match RECV { Some(x) => BODY, None => DFLT })` (RECV = the method-call chain ending before .map_or)"""
    n = 0
    while True:
        m = re.search(r'\.\s*map_or(\()', f.body)
        if not m:
            break
        close = match_brace(f.body, m.start(1))
        inner = f.body[m.start(1) + 1:close]
        mi = re.match(r'\s*(.*?),\s*\|\s*(\w+)\s*\|\s*(.*)$', inner, flags=re.S)
        if not mi:
            break
        # receiver: walk back over a postfix chain ident(.ident|(..)|[..])*
        i = m.start() - 1
        while i >= 0:
            ch = f.body[i]
            if ch in ')]':
                depth = 0
                while i >= 0:
                    if f.body[i] in ')]':
                        depth += 1
                    elif f.body[i] in '([':
                        depth -= 1
                        if depth == 0:
                            break
                    i -= 1
                i -= 1
                continue
            if ch.isalnum() or ch in '_.*' or ch.isspace():
                # stop at whitespace that follows a non-chain token
                if ch.isspace() and not re.match(r'\s*\.', f.body[i:]):
                    break
                i -= 1
                continue
            break
        recv = f.body[i + 1:m.start()].strip()
        if not recv:
            break
        st = f.body.index(recv, i + 1)
        f.body = f.body[:st] + f'(match {recv} {{ Some({mi.group(2)}) => {mi.group(3).strip().rstrip(",").strip()}, None => {mi.group(1).strip()} }})' + f.body[close + 1:]
        n += 1
    if n:
        f.rewrites.append(('R6', f'{n}x `opt.map_or(d, |x| BODY)` -> match (BODY verbatim)', ''))
    return f


def unget_or_insert(f):
    """R6: statement `LV.get_or_insert(V);` (result unused) -> `if LV.is_none() { LV = Some(V); }` (LV = the place expression at the start of the statement)"""
    n = 0
    while True:
        m = re.search(r'(?<=[;{}])(\s*)([\w.\[\]\s]+?)\s*\.\s*get_or_insert(\()', f.body)
        if not m:
            break
        close = match_brace(f.body, m.start(3))
        if not re.match(r'\s*;', f.body[close + 1:]):
            break
        end = close + 1 + re.match(r'\s*;', f.body[close + 1:]).end()
        lv = m.group(2).strip()
        v = f.body[m.start(3) + 1:close]
        f.body = f.body[:m.start()] + f'{m.group(1)}if {lv}.is_none() {{ {lv} = Some({v}); }}' + f.body[end:]
        n += 1
    if n:
        f.rewrites.append(('R6', f'`LV.get_or_insert(V);` -> `if LV.is_none() {{ LV = Some(V); }}` x{n}', ''))
    return f


def unref_patterns_in_arms(f):
    """R1 (generic): a match arm whose pattern binds through `&x` (e.g. `Some(&x)`, `(Some(&a), Some(&b))`) -> the pattern binds the reference `x_r_`
    and the arm starts with `let x = *x_r_;` (arm body verbatim)"""
    n = 0
    pos = 0
    while True:
        m = re.compile(r'=>').search(f.body, pos)
        if not m:
            break
        # pattern: back to the previous `{` / `,` / `}` at depth 0
        i, depth = m.start() - 1, 0
        while i >= 0:
            ch = f.body[i]
            if ch in ')]':
                depth += 1
            elif ch in '([':
                depth -= 1
            elif ch in '{,}' and depth == 0:
                break
            i -= 1
        pat = f.body[i + 1:m.start()]
        names = re.findall(r'&\s*(\w+)\b', pat)
        if not names or re.search(r'\bif\b', pat):
            pos = m.end()
            continue
        # arm body
        j = m.end()
        while f.body[j] in ' \n\t':
            j += 1
        if f.body[j] == '{':
            e = match_brace(f.body, j)
            body, end = f.body[j + 1:e], e + 1
        else:
            e, depth = j, 0
            while e < len(f.body):
                ch = f.body[e]
                if ch in '([{':
                    depth += 1
                elif ch in ')]}':
                    if depth == 0:
                        break
                    depth -= 1
                elif ch == ',' and depth == 0:
                    break
                e += 1
            body, end = f.body[j:e], e
        pat2 = re.sub(r'&\s*(\w+)\b', r'\1_r_', pat)
        lets = ' '.join(f'let {x} = *{x}_r_;' for x in names)
        f.body = f.body[:i + 1] + pat2 + '=> { ' + lets + ' ' + body + ' }' + f.body[end:]
        pos = i + 1 + len(pat2) + 4
        n += 1
    if n:
        f.rewrites.append(('R1', f'{n} match arm(s): `&x` sub-patterns -> reference binding + `let x = *x_r_;` at the start of the arm', ''))
    return f


def _balanced_end(s, open_idx):
    """index just past the bracket that closes the one at `open_idx`"""
    pairs = {'(': ')', '[': ']', '{': '}'}
    depth = 0
    for k in range(open_idx, len(s)):
        c = s[k]
        if c in pairs:
            depth += 1
        elif c in pairs.values():
            depth -= 1
            if depth == 0:
                return k + 1
    return -1


def drop_capacity_hints(f, ctors=("Vec",)):
    """R6: a capacity is an allocation hint and no part of the value: `Vec::with_capacity(E)` -> `Vec::new()`;
    a local that served only the hint (transitively) is dropped together with its defining `let`."""
    names, n = set(), 0
    for ctor in ctors:
        head = ctor + '::with_capacity('
        while True:
            i = f.body.find(head)
            if i < 0:
                break
            e = _balanced_end(f.body, i + len(head) - 1)
            if e < 0:
                break
            names |= set(re.findall(r'(?<![.\w:])([a-z_]\w*)\b(?!\s*[(:!])', f.body[i + len(head):e - 1]))
            f.body = f.body[:i] + ctor + '::new()' + f.body[e:]
            n += 1
    if not n:
        return f
    dropped = []
    changed = True
    while changed:
        changed = False
        for nm in sorted(names):
            uses = [m.start() for m in re.finditer(r'(?<!\w)(?<!(?<!\.)\.)' + re.escape(nm) + r'\b', f.body)]   # `a..nm` is a use, `x.nm` is a field
            if len(uses) != 1:
                continue
            m = re.search(r'let\s+(?:mut\s+)?' + re.escape(nm) + r'\b\s*(?::[^=;]+)?=', f.body)
            if not m or not (m.start() < uses[0] < m.end()):
                continue
            # statement end: first `;` at bracket depth 0
            k, depth = m.end(), 0
            while k < len(f.body):
                c = f.body[k]
                if c in '([{':
                    depth += 1
                elif c in ')]}':
                    depth -= 1
                elif c == ';' and depth == 0:
                    break
                k += 1
            if k >= len(f.body):
                continue
            names |= set(re.findall(r'(?<![.\w:])([a-z_]\w*)\b(?!\s*[(:!])', f.body[m.end():k]))
            f.body = f.body[:m.start()] + f.body[k + 1:]
            names.discard(nm)
            dropped.append(nm)
            changed = True
            break
    f.rewrites.append(('R6', f'{n} x `with_capacity(..)` -> `new()` (a capacity is an allocation hint)' + (f'; hint-only locals dropped: {", ".join(dropped)}' if dropped else ''), ''))
    return f


# ====================================================================================================================
# R14 closure lifting + hash-container iteration skeletons (general): the closure BODY stays verbatim, it becomes the
# body of a top-level fn whose parameters are the element and the variables the closure captures; iteration over a
# hash set / map becomes an indexed loop over an ARBITRARY duplicate-free listing of it (stub `listing`), so a proof
# over the generated loop holds for every iteration order the runtime may choose.
# ====================================================================================================================
def closure_at(body, start):
    """the closure that starts at body[start] == '|': returns (pattern, inner_text, is_block, end) where end is the index just past it"""
    assert body[start] == '|'
    p_end = body.index('|', start + 1)
    pat = body[start + 1:p_end].strip()
    k = p_end + 1
    while body[k].isspace():
        k += 1
    if body[k] == '{':
        e = match_brace(body, k)
        return pat, body[k + 1:e], True, e + 1
    depth, j = 0, k
    while j < len(body):
        c = body[j]
        if c in '([{':
            depth += 1
        elif c in ')]}':
            if depth == 0:
                break
            depth -= 1
        elif c == ',' and depth == 0:
            break
        j += 1
    return pat, body[k:j].strip(), False, j


def _split_top_commas(s):
    out, depth, cur = [], 0, ''
    for c in s:
        if c in '([{<':
            depth += 1
        elif c in ')]}>':
            depth -= 1
        if c == ',' and depth == 0:
            out.append(cur.strip())
            cur = ''
        else:
            cur += c
    if cur.strip():
        out.append(cur.strip())
    return out


def lift_closure(f, start, name, generics, elem_ty, src, src_kind, caps, ret_ty):
    """R14. The closure at f.body[start] (taking one element of the hash container `src`) becomes
         fn NAME<generics>(k_: ELEM, <captured variables that its body names, as declared in `caps`>) -> RET { <lets binding the closure's pattern>; <body verbatim> }
       `caps`: name -> parameter declaration ('candidates: &HashMap<..>'); 'self' is passed as `this` (body: `self.` -> `this.`);
       a capture received by reference loses the `&` the closure put in front of it. Returns (lifted Fn, call text, end index)."""
    import copy
    pat, inner, is_block, end = closure_at(f.body, start)
    lets = []
    if src_kind == 'map':
        if not (pat.startswith('(') and pat.endswith(')')):
            raise ExtractError(f'{f.qual}: closure over the map `{src}` with a non-pair pattern `{pat}`')
        kp, vp = _split_top_commas(pat[1:-1])
        lets.append(f'let {kp[1:]} = k_;' if kp.startswith('&') else f'let {kp} = &k_;')
        if vp != '_':
            lets.append(f'let {vp} = {src}.get(&k_).unwrap();')
    else:
        lets.append(f'let {pat[1:]} = k_;' if pat.startswith('&') else f'let {pat} = &k_;')
    text = inner
    used = []
    for nm, decl in caps.items():
        if re.search(r'(?<![.\w])' + re.escape(nm) + r'\b', text) or (nm == src and src_kind == 'map'):
            used.append(nm)
    for nm in used:
        if nm == 'self':
            text = re.sub(r'\bself\b', 'this', text)
        elif '&' in caps[nm].split(':', 1)[1]:
            text = re.sub(r'&' + re.escape(nm) + r'\b(?![.\[])', nm, text)
    params = ', '.join([f'k_: {elem_ty}'] + [caps[nm] for nm in used])
    args = ', '.join(['k_'] + [('self' if nm == 'self' else (nm if '&' not in caps[nm].split(':', 1)[1] or _is_ref_local(f, nm) else '&' + nm)) for nm in used])
    g = copy.copy(f)
    g.qual = f'{f.qual}::{{closure {name}}}'
    g.sig = f'fn {name}{generics}({params}) -> {ret_ty}'
    g.body = '{\n' + ' '.join(lets) + '\n' + text + '\n}'
    g.req, g.ens, g.dec, g.attrs = [], [], None, []
    g.rewrites = [('R14', f'closure `|{pat}| ..` of {f.qual} lifted to fn {name}({params}); body verbatim', '')]
    g.retname = 'ret'
    f.rewrites.append(('R14', f'closure `|{pat}| ..` lifted to fn {name}; call site passes the element and the captured variables', ''))
    return g, f'{name}({args})', end


def _is_ref_local(f, nm):
    """is `nm` a reference-typed parameter of f (so it is passed as is) rather than an owned local (passed as `&nm`)?"""
    m = re.search(r'\b' + re.escape(nm) + r'\s*:\s*&', f.sig)
    return bool(m)


def _receiver_start(body, dot):
    """start index of the postfix chain `ident(.ident|(..)|[..])*` that ends right before body[dot] == '.'"""
    i = dot - 1
    while i >= 0:
        ch = body[i]
        if ch in ')]':
            depth = 0
            while i >= 0:
                if body[i] in ')]':
                    depth += 1
                elif body[i] in '([':
                    depth -= 1
                    if depth == 0:
                        break
                i -= 1
            i -= 1
            continue
        if ch.isalnum() or ch in '_.*' or ch.isspace():
            if ch.isspace() and not re.match(r'\s*\.', body[i:]):
                break
            i -= 1
            continue
        break
    recv = body[i + 1:dot].strip()
    return body.index(recv, i + 1) if recv else -1


def unoption_pred(f):
    """R6: `RECV.is_none_or(|x| B)` -> `(match RECV { Some(x) => B, None => true })`; `.is_some_and(|x| B)` -> `.. None => false`;
    `RECV.copied().or_else(|| E)` -> `(match RECV { Some(v_) => Some(*v_), None => E })`  (B, E verbatim)"""
    n = 0
    while True:
        m = re.search(r'\.\s*(is_none_or|is_some_and)(\()', f.body)
        if not m:
            break
        close = match_brace(f.body, m.start(2))
        mi = re.match(r'\s*\|\s*(&?\w+)\s*\|\s*(.*)$', f.body[m.start(2) + 1:close], flags=re.S)
        st = _receiver_start(f.body, m.start())
        if not mi or st < 0:
            break
        recv = f.body[st:m.start()].strip()
        dflt = 'true' if m.group(1) == 'is_none_or' else 'false'
        f.body = f.body[:st] + f'(match {recv} {{ Some({mi.group(1)}) => {mi.group(2).strip().rstrip(",").strip()}, None => {dflt} }})' + f.body[close + 1:]
        n += 1
    while True:
        m = re.search(r'\.\s*copied\(\)\s*\.\s*or_else(\()', f.body)
        if not m:
            break
        close = match_brace(f.body, m.start(1))
        mi = re.match(r'\s*\|\s*\|\s*(.*)$', f.body[m.start(1) + 1:close], flags=re.S)
        st = _receiver_start(f.body, m.start())
        if not mi or st < 0:
            break
        recv = f.body[st:m.start()].strip()
        f.body = f.body[:st] + f'(match {recv} {{ Some(v_) => Some(*v_), None => {mi.group(1).strip().rstrip(",").strip()} }})' + f.body[close + 1:]
        n += 1
    while True:
        m = re.search(r'\.\s*or_else(\()\s*\|\s*\|', f.body)
        if not m:
            break
        close = match_brace(f.body, m.start(1))
        mi = re.match(r'\s*\|\s*\|\s*(.*)$', f.body[m.start(1) + 1:close], flags=re.S)
        st = _receiver_start(f.body, m.start())
        if not mi or st < 0:
            break
        recv = f.body[st:m.start()].strip()
        f.body = f.body[:st] + f'(match {recv} {{ Some(v_) => Some(v_), None => {mi.group(1).strip().rstrip(",").strip()} }})' + f.body[close + 1:]
        n += 1
    if n:
        f.rewrites.append(('R6', f'{n}x Option predicate/alternative combinator with a closure -> match (closure body verbatim)', ''))
    return f


def unfilter_map_collect_set(f):
    """R6: `let NAME: [hashbrown::]HashSet<T> = SRC.iter().filter_map(|P| BODY).collect();` (BODY an expression of type Option<T> without `?`/`return`)
    -> `let mut NAME: HashSet<T> = HashSet::new(); for i in 0..SRC.len() { let P = &SRC[i]; match BODY { Some(x_) => { NAME.insert(x_); } None => {} } }`"""
    n = 0
    while True:
        m = re.search(r'let (\w+): (?:hashbrown::|std::collections::)?HashSet<([^>]+)> = ([\w.\s]+?)\s*\.\s*iter\(\)\s*\.\s*filter_map(\()', f.body)
        if not m:
            break
        try:
            params, cbody, close = _closure_after(f.body, m.start(4))
        except ExtractError:
            break
        m2 = re.match(r'\s*\.\s*collect\(\)\s*;', f.body[close + 1:])
        if not m2 or re.search(r'\?|\breturn\b', cbody):
            break
        name, ty, src = m.group(1), m.group(2), ''.join(m.group(3).split())
        if cbody.startswith('{') and match_brace(cbody, 0) == len(cbody) - 1 and ';' not in cbody:
            cbody = cbody[1:-1].strip()
        k = f'fs{n}_'
        bind = f'let {params[1:].strip()} = {src}[{k}];' if params.startswith('&') else f'let {params} = &{src}[{k}];'
        code = (f'let mut {name}: HashSet<{ty}> = HashSet::new(); for {k} in 0..{src}.len() {{ {bind} '
                f'match ({cbody}) {{ Some(x_) => {{ {name}.insert(x_); }} None => {{}} }} }}')
        f.body = f.body[:m.start()] + code + f.body[close + 1 + m2.end():]
        n += 1
    if n:
        f.rewrites.append(('R6', f'{n}x `let s: HashSet<T> = v.iter().filter_map(|p| BODY).collect();` -> loop inserting the `Some` results (BODY verbatim)', ''))
    return f


def unoption_filter(f):
    """R6: `OPT.as_ref().filter(|w| P)` -> `(match OPT.as_ref() { Some(w) => if P { Some(w) } else { None }, None => None })`  (P verbatim)"""
    n = 0
    while True:
        m = re.search(r'\.\s*as_ref\(\)\s*\.\s*filter(\()', f.body)
        if not m:
            break
        close = match_brace(f.body, m.start(1))
        mi = re.match(r'\s*\|\s*(\w+)\s*\|\s*(.*)$', f.body[m.start(1) + 1:close], flags=re.S)
        st = _receiver_start(f.body, m.start())
        if not mi or st < 0:
            break
        recv = f.body[st:m.start()].strip()
        w = mi.group(1)
        f.body = f.body[:st] + f'(match {recv}.as_ref() {{ Some({w}) => {{ let {w} = &{w}; if {mi.group(2).strip().rstrip(",").strip()} {{ Some(*{w}) }} else {{ None }} }}, None => None }})' + f.body[close + 1:]
        n += 1
    if n:
        f.rewrites.append(('R6', f'{n}x `opt.as_ref().filter(|w| P)` -> match (P verbatim; the closure sees a reference to the item)', ''))
    return f


def project_on(f, start_re, tracked, why):
    """R13 projection slice: the function body from the statement matching `start_re` to its end, keeping only the top-level statements that
    mention one of the `tracked` names (and the tail expression); inside a kept `let X = { .. };` block the same projection applies.
    The dropped statements only bind OTHER locals: every name they bound that a kept statement still mentions becomes a parameter of the slice
    (an arbitrary value of its type).  Returns the list of dropped statement heads (for the evidence)."""
    from vf.extract import _split_stmts
    m = re.search(start_re, f.body)
    if not m:
        raise ExtractError(f'lost anchor in {f.qual}: projection start /{start_re}/')
    inner = f.body[m.start():f.body.rstrip().rfind('}')]
    pat = re.compile(r'(?<![.\w])(' + '|'.join(re.escape(t) for t in tracked) + r')\b')
    dropped = []

    def proj(block):
        stmts = _split_stmts(block)
        out = []
        for k, st in enumerate(stmts):
            last = k == len(stmts) - 1 and not st.rstrip().endswith(';')
            if not (pat.search(st) or last):
                dropped.append(' '.join(st.split())[:60])
                continue
            # a kept `if ..` / `if let ..` / `for ..` / `while ..` statement with one block and no `else`: the projection applies inside the block
            mh = re.match(r'\s*(if|for|while)\b', st)
            if mh and st.rstrip().endswith('}'):
                j, depth, ob = mh.end(), 0, None
                while j < len(st):
                    if st[j] in '([':
                        j = match_brace(st, j)
                    elif st[j] == '{':
                        ob = j
                        break
                    j += 1
                if ob is not None and match_brace(st, ob) == len(st.rstrip()) - 1:
                    out.append(st[:ob + 1] + proj(st[ob + 1:len(st.rstrip()) - 1]) + '}\n')
                    continue
            mb = re.match(r'(\s*let\s+[^=]+=\s*)\{(.*)\}(\s*;\s*)$', st, flags=re.S)
            if mb and match_brace(st, st.index('{', len(mb.group(1)) - 1)) == st.rstrip().rstrip(';').rstrip().__len__() - 1:
                out.append(mb.group(1) + '{' + proj(mb.group(2)) + '}' + mb.group(3))
            else:
                out.append(st)
        return ''.join(out)
    f.body = '{\n' + proj(inner) + '\n}'
    f.rewrites.append(('R13', f'projection slice from /{start_re}/ on {sorted(tracked)}: {len(dropped)} statements binding other locals dropped', why))
    return dropped


def unfind_let_else(f):
    """R6: `let Some(P) = RECV.iter().find(|e| COND) else { ELSE };` -> first-match index loop (COND verbatim), then `let Some(i) = idx else { ELSE }; let P = &RECV[i];`"""
    n = 0
    while True:
        m = re.search(r'let Some\((\w+)\) = ([\w.\s]+?)\s*\.\s*iter\(\)\s*\.\s*find(\()', f.body)
        if not m:
            break
        close = match_brace(f.body, m.start(3))
        mi = re.match(r'\s*\|\s*(&?\w+)\s*\|\s*(.*)$', f.body[m.start(3) + 1:close], flags=re.S)
        me = re.match(r'\s*else\s*(\{)', f.body[close + 1:])
        if not mi or not me:
            break
        eo = close + 1 + me.start(1)
        ec = match_brace(f.body, eo)
        ms = re.match(r'\s*;', f.body[ec + 1:])
        if not ms:
            break
        recv, p, e, cond = ''.join(m.group(2).split()), m.group(1), mi.group(1).lstrip('&'), mi.group(2).strip().rstrip(',').strip()
        k = f'fd{n}_'
        code = (f'let mut i_{k}: Option<usize> = None; for {k} in 0..{recv}.len() {{ let {e} = &{recv}[{k}]; if i_{k}.is_none() && ({cond}) {{ i_{k} = Some({k}); }} }} '
                f'let Some(j_{k}) = i_{k} else {f.body[eo:ec + 1]}; let {p} = &{recv}[j_{k}];')
        f.body = f.body[:m.start()] + code + f.body[ec + 1 + ms.end():]
        n += 1
    if n:
        f.rewrites.append(('R6', f'{n}x `let Some(p) = v.iter().find(|e| COND) else {{..}};` -> first-match index loop (COND verbatim)', ''))
    return f


def uniter_sum(f):
    """R6: `let NAME: usize = PIPELINE.sum();` / `.sum::<usize>()` -> loop adding the items to an accumulator (closure bodies verbatim)"""
    n = 0
    g = _Gen()
    while True:
        m = re.search(r'let (\w+)(?:: usize)? = ([^;]*?)\s*\.\s*sum(?:::<usize>)?\(\)\s*;', f.body, flags=re.S)
        if not m or not _is_iter_expr(m.group(2).strip()):
            break
        acc = f's{n}_'

        def sink(elem, kind, acc=acc):
            if kind == 'vec':
                raise ExtractError('sum over a vector-valued pipeline item')
            return f'{acc} = {acc} + {("*" + elem) if kind == "ref" else elem};'
        code = _compile_iter(m.group(2).strip(), sink, g, None)
        f.body = f.body[:m.start()] + f'let {m.group(1)}: usize = {{ let mut {acc}: usize = 0; {code} {acc} }};' + f.body[m.end():]
        n += 1
    if n:
        f.rewrites.append(('R6', f'{n} iterator pipeline(s) `..sum()` compiled to accumulating loops (closure bodies verbatim)', ''))
    return f


def unfor_zip_pairs(f):
    """R5: `for (P1, P2) in A.iter().zip(B.iter()) {` -> `let n_zK_ = min(A.len(), B.len()); for zK_ in 0..n_zK_ { let P1 = &A[zK_]; let P2 = &B[zK_];`
    (a pattern `&x` binds a copy `A[zK_]`); loops are numbered in source order so nested ones do not clash"""
    n = 0
    while True:
        m = re.search(r'for \(', f.body)
        found = None
        for m in re.finditer(r'for (\()', f.body):
            c = match_brace(f.body, m.start(1))
            mz = re.match(r'\s+in\s+([\w.\[\]]+?)\s*\.\s*iter\(\)\s*\.\s*zip\(\s*&?([\w.\[\]]+?)(\s*\.\s*iter\(\))?\s*\)\s*\{', f.body[c + 1:])
            halves = _split_top_commas(f.body[m.start(1) + 1:c])
            if mz and len(halves) == 2:
                found = (m, c, mz, halves)
                break
        if not found:
            break
        m, c, mz, (p1, p2) = found
        a, b = mz.group(1), mz.group(2)
        k = f'z{n}_'
        b1 = f'let {p1[1:].strip()} = {a}[{k}];' if p1.startswith('&') else f'let {p1} = &{a}[{k}];'
        b2 = f'let {p2[1:].strip()} = {b}[{k}];' if p2.startswith('&') else f'let {p2} = &{b}[{k}];'
        f.body = f.body[:m.start()] + f'let n_{k} = if {a}.len() <= {b}.len() {{ {a}.len() }} else {{ {b}.len() }}; for {k} in 0..n_{k} {{ {b1} {b2}' + f.body[c + 1 + mz.end():]
        n += 1
    if n:
        f.rewrites.append(('R5', f'{n}x `for (P1, P2) in A.iter().zip(B.iter())` -> index loop over the common prefix', ''))
    return f


def unok_or_else_q(f):
    """R6: `let NAME = RECV.ok_or_else(|| E)?;` / `let NAME = RECV.ok_or(E)?;` -> `let NAME = match RECV { Some(v_) => v_, None => { return Err(E); } };`  (RECV, E verbatim)"""
    n = 0
    while True:
        m = re.search(r'\.\s*ok_or(?:_else)?(\()', f.body)
        if not m:
            break
        close = match_brace(f.body, m.start(1))
        if f.body[m.start():m.start(1)].rstrip().endswith('ok_or'):
            mi = re.match(r'(?=)(.*)$', f.body[m.start(1) + 1:close], flags=re.S)
        else:
            mi = re.match(r'\s*\|\s*\|\s*(.*)$', f.body[m.start(1) + 1:close], flags=re.S)
        mq = re.match(r'\s*\?\s*;', f.body[close + 1:])
        # statement start: `let NAME =` before the receiver
        ls = f.body.rfind('let ', 0, m.start())
        ml = re.match(r'let\s+(\w+)(\s*:\s*[^=]+)?\s*=\s*', f.body[ls:]) if ls >= 0 else None
        if not (mi and mq and ml) or ';' in f.body[ls:m.start()]:
            break
        recv = f.body[ls + ml.end():m.start()].strip()
        e = mi.group(1).strip().rstrip(',').strip()
        if e.startswith('{') and match_brace(e, 0) == len(e) - 1 and ';' not in e:
            e = e[1:-1].strip()
        f.body = f.body[:ls] + f'let {ml.group(1)}{ml.group(2) or ""} = match {recv} {{ Some(v_) => v_, None => {{ return Err({e}); }} }};' + f.body[close + 1 + mq.end():]
        n += 1
    if n:
        f.rewrites.append(('R6', f'{n}x `let x = OPT.ok_or_else(|| E)?;` -> match with an early `return Err(E)`', ''))
    return f


def uniter_max(f):
    """R6: `PIPELINE.max()` (usize items) -> loop keeping the largest item in an Option<usize> (closure bodies verbatim)"""
    n = 0
    g = _Gen()
    while True:
        m = re.search(r'\.\s*max\(\)', f.body)
        if not m:
            break
        st = _receiver_start(f.body, m.start())
        if st < 0 or not _is_iter_expr(f.body[st:m.start()].strip()):
            break
        acc = f'mx{n}_'

        def sink(elem, kind, acc=acc):
            x = ('*' + elem) if kind == 'ref' else elem
            return f'{{ let it_ = {x}; {acc} = match {acc} {{ Some(c_) => if it_ > c_ {{ Some(it_) }} else {{ Some(c_) }}, None => Some(it_) }}; }}'
        code = _compile_iter(f.body[st:m.start()].strip(), sink, g, None)
        f.body = f.body[:st] + f'{{ let mut {acc}: Option<usize> = None; {code} {acc} }}' + f.body[m.end():]
        n += 1
    if n:
        f.rewrites.append(('R6', f'{n} iterator pipeline(s) `..max()` compiled to loops keeping the largest item (closure bodies verbatim)', ''))
    return f


def unchecked_sub_filter(f):
    """R6: `A.checked_sub(B).filter(|&r| P)` -> `(match A.checked_sub(B) { Some(r) => if P { Some(r) } else { None }, None => None })`  (P verbatim)"""
    n = 0
    while True:
        m = re.search(r'\.\s*checked_sub(\()', f.body)
        if not m:
            break
        c1 = match_brace(f.body, m.start(1))
        mf = re.match(r'\s*\.\s*filter(\()', f.body[c1 + 1:])
        if not mf:
            break
        fo = c1 + 1 + mf.start(1)
        fc = match_brace(f.body, fo)
        mi = re.match(r'\s*\|\s*&?(\w+)\s*\|\s*(.*)$', f.body[fo + 1:fc], flags=re.S)
        st = _receiver_start(f.body, m.start())
        if not mi or st < 0:
            break
        recv = f.body[st:c1 + 1].strip()
        f.body = f.body[:st] + f'(match {recv} {{ Some({mi.group(1)}) => if {mi.group(2).strip().rstrip(",").strip()} {{ Some({mi.group(1)}) }} else {{ None }}, None => None }})' + f.body[fc + 1:]
        n += 1
        if n > 8:
            break
    if n:
        f.rewrites.append(('R6', f'{n}x `a.checked_sub(b).filter(|&r| P)` -> match (P verbatim)', ''))
    return f


def uniter_first(f):
    """R6: `PIPELINE.next()` (first item of a pipeline) -> loop remembering the first item in an Option (closure bodies verbatim; usize items)"""
    n = 0
    g = _Gen()
    while True:
        m = None
        for mm in re.finditer(r'\.\s*next\(\)', f.body):
            st = _receiver_start(f.body, mm.start())
            if st >= 0 and _is_iter_expr(f.body[st:mm.start()].strip()) and len(_split_method_chain(f.body[st:mm.start()].strip())[1]) > 1:
                m = (mm, st)
                break
        if not m:
            break
        mm, st = m
        acc = f'fst{n}_'

        def sink(elem, kind, acc=acc):
            x = ('*' + elem) if kind == 'ref' else elem
            return f'if {acc}.is_none() {{ {acc} = Some({x}); }}'
        code = _compile_iter(f.body[st:mm.start()].strip(), sink, g, None)
        f.body = f.body[:st] + f'{{ let mut {acc}: Option<usize> = None; {code} {acc} }}' + f.body[mm.end():]
        n += 1
    if n:
        f.rewrites.append(('R6', f'{n} iterator pipeline(s) `..next()` compiled to loops remembering the first item (closure bodies verbatim)', ''))
    return f


def pull_in_helpers(u, f, relpath, container, known, qual_prefix):
    """methods of the same impl that `f` calls on `self` and the unit does not know yet (`known`): extracted verbatim, WITHOUT a contract
    (their bodies are checked for safety only), so that a helper introduced next to a function under contract does not make the unit unbuildable"""
    out, todo = [], [f]
    seen = set(known)
    while todo:
        g = todo.pop()
        for nm in re.findall(r'\bself\s*\.\s*(\w+)\s*\(', g.body):
            if nm in seen:
                continue
            seen.add(nm)
            try:
                h = u.extract(relpath, container, nm, f'{qual_prefix}::{nm}[helper, no contract]')
            except ExtractError:
                continue
            out.append(h)
            todo.append(h)
    return out


def unextend_iter(f):
    """R5: `X.extend(Y.iter().copied())` -> `for xeK_ in 0..Y.len() { X.insert(Y[xeK_]); }` and
    `X.extend(Y.iter().flatten().copied())` -> the two nested index loops (set / map-free collections: `insert`; the element order is the iteration order)"""
    n = 0
    while True:
        m = re.search(r'([\w.]+)\.extend\(\s*([\w.]+)\.iter\(\)(\.flatten\(\))?\.copied\(\)\s*\);', f.body)
        if not m:
            break
        x, y, flat = m.group(1), m.group(2), m.group(3)
        k = f'xe{n}_'
        if flat:
            new = f'for {k} in 0..{y}.len() {{ for f{k} in 0..{y}[{k}].len() {{ {x}.insert({y}[{k}][f{k}]); }} }}'
        else:
            new = f'for {k} in 0..{y}.len() {{ {x}.insert({y}[{k}]); }}'
        f.body = f.body[:m.start()] + new + f.body[m.end():]
        n += 1
    if n:
        f.rewrites.append(('R5', f'{n}x `X.extend(Y.iter()[.flatten()].copied())` -> index loop(s) inserting each element', ''))
    return f


def unfirst_last_let_else(f):
    """R1: `let (Some(&A), Some(&B)) = (X.first(), X.last()) else { ELSE };` -> `if X.len() == 0 { ELSE } let A = X[0]; let B = X[X.len() - 1];`
    and the single forms `let Some(&A) = X.first() else { ELSE };` / `.last()`"""
    n = 0
    while True:
        m = re.search(r'let \(Some\(&(\w+)\), Some\(&(\w+)\)\) = \((\w+)\.first\(\), (\w+)\.last\(\)\) else (\{)', f.body)
        if m and m.group(3) == m.group(4):
            c = match_brace(f.body, m.start(5))
            e = c + 1
            while e < len(f.body) and f.body[e] in ' \n\t':
                e += 1
            if e < len(f.body) and f.body[e] == ';':
                e += 1
            a, b, x = m.group(1), m.group(2), m.group(3)
            f.body = f.body[:m.start()] + f'if {x}.len() == 0 {f.body[m.start(5):c + 1]} let {a} = {x}[0]; let {b} = {x}[{x}.len() - 1];' + f.body[e:]
            n += 1
            continue
        m = re.search(r'let Some\(&(\w+)\) = (\w+)\.(first|last)\(\) else (\{)', f.body)
        if m:
            c = match_brace(f.body, m.start(4))
            e = c + 1
            while e < len(f.body) and f.body[e] in ' \n\t':
                e += 1
            if e < len(f.body) and f.body[e] == ';':
                e += 1
            a, x = m.group(1), m.group(2)
            ix = '0' if m.group(3) == 'first' else f'{x}.len() - 1'
            f.body = f.body[:m.start()] + f'if {x}.len() == 0 {f.body[m.start(4):c + 1]} let {a} = {x}[{ix}];' + f.body[e:]
            n += 1
            continue
        break
    if n:
        f.rewrites.append(('R1', f'{n}x `let Some(&a) = xs.first()/last() else {{..}}` -> emptiness test + index', ''))
    return f


def inline_thunks(f):
    """R6: a zero-argument closure bound to a name, `let NAME = || EXPR;`, is inlined: `NAME()` -> `(EXPR)`, `NAME` passed as an argument -> `|| EXPR`
    (EXPR must not assign: only value-building thunks such as error constructors qualify)"""
    n = 0
    while True:
        m = re.search(r'let (\w+) = \|\|\s*', f.body)
        if not m:
            break
        # EXPR runs to the `;` at nesting depth 0
        i, depth = m.end(), 0
        while i < len(f.body):
            ch = f.body[i]
            if ch in '({[':
                depth += 1
            elif ch in ')}]':
                depth -= 1
            elif ch == ';' and depth == 0:
                break
            i += 1
        expr = f.body[m.end():i].strip()
        if re.search(r'(?<![=!<>])=(?!=)', re.sub(r'\w+\s*:', '', expr)) or i >= len(f.body):
            break
        name = m.group(1)
        rest = f.body[i + 1:]
        rest = re.sub(r'\b' + name + r'\(\)', lambda _m: '(' + expr + ')', rest)
        rest = re.sub(r'(?<=[(,])\s*' + name + r'\s*(?=[),])', lambda _m: '|| ' + expr, rest)
        f.body = f.body[:m.start()] + rest
        n += 1
    if n:
        f.rewrites.append(('R6', f'{n}x named zero-argument closure `let f = || EXPR;` inlined at its uses', ''))
    return f


def unfor_array(f):
    """R5: `for V in [A, B, ..] { BODY }` over an array literal of plain names -> one copy of BODY per element, in order (`{ let V = A; BODY } { let V = B; BODY }`)"""
    n = 0
    while True:
        m = re.search(r'for (\w+) in \[([\w\s,]+)\] (\{)', f.body)
        if not m:
            break
        c = match_brace(f.body, m.start(3))
        inner = f.body[m.start(3) + 1:c]
        elems = [e.strip() for e in m.group(2).split(',') if e.strip()]
        f.body = f.body[:m.start()] + ' '.join(f'{{ let {m.group(1)} = {e}; {inner} }}' for e in elems) + f.body[c + 1:]
        n += 1
    if n:
        f.rewrites.append(('R5', f'{n}x `for v in [a, b, ..]` over an array literal unrolled', ''))
    return f


def pull_work_helpers(u, callers, node_ty, generics):
    """associated functions of the traversal work item (`impl<'a, E> Work<'a, E, *const E>` in circuit/src/symbolic/dag.rs) that the compile functions call and the unit does not know:
    extracted verbatim, specialised to the unit's node type (R11: E -> node type, `*const E` -> NodeKey, `x as *const E` -> node_key(x)), WITHOUT a contract"""
    out, seen = [], {'Eval', 'BuildNeg', 'BuildBinary'}
    for f in callers:
        for nm in re.findall(r'\bWork::(\w+)\s*\(', f.body):
            if nm in seen:
                continue
            seen.add(nm)
            try:
                h = u.extract('circuit/src/symbolic/dag.rs', r"impl<'a, E> Work<'a, E, \*const E>", nm, f'Work::{nm}[helper, no contract]')
            except ExtractError:
                continue
            for where in ('sig', 'body'):
                h.rewrite_re('R11', r'\*const E\b', 'NodeKey', where=where, min_count=0)
                h.rewrite_re('R11', r'\bVec<Self>', f"Vec<Work<'a, {node_ty}, NodeKey>>", where=where, min_count=0)
                h.rewrite_re('R11', r"&'a E\b", f"&'a {node_ty}", where=where, min_count=0)
                h.rewrite_re('R11', r'\bE\b', node_ty, where=where, min_count=0)
            h.rewrite_re('R11', r'\((\w+) as NodeKey\)', r'node_key(\1)', min_count=0)
            h.rewrite_re('R11', r'\bSelf::', 'Work::', min_count=0)
            h.rewrite_re('R12', r'pub\(super\)\s*', '', where='sig', min_count=0)
            h.rewrite_re('R1', r'if let Some\(&(\w+)\) = ([^{]+?) \{', r'if let Some(\1_r_) = \2 { let \1 = *\1_r_;', min_count=0)
            unfor_array(h)
            h.sig = re.sub(r'fn (\w+)\s*\(', lambda m_: f'fn {m_.group(1)}<{generics}>(', h.sig, count=1) if generics else h.sig
            out.append(h)
    return out


def unoption_or_chain(f):
    """R6: the Option fall-back combinators with a zero-argument closure (or a plain value) become matches, leftmost first:
    `RECV.or_else(|| E)` -> `(match RECV { Some(v_) => Some(v_), None => E })`, `RECV.unwrap_or_else(|| E)` / `RECV.unwrap_or(E)` -> `(match RECV { Some(v_) => v_, None => E })`
    (RECV = the method-call chain ending before the combinator; E verbatim)"""
    n = 0
    while True:
        m = re.search(r'\.\s*(or_else|unwrap_or_else|unwrap_or)(\()', f.body)
        if not m:
            break
        close = match_brace(f.body, m.start(2))
        inner = f.body[m.start(2) + 1:close].strip()
        kind = m.group(1)
        if kind != 'unwrap_or':
            mi = re.match(r'\|\|\s*(.*)$', inner, flags=re.S)
            if not mi:
                break
            inner = mi.group(1).strip()
        st = _receiver_start(f.body, m.start())
        if st < 0:
            break
        recv = f.body[st:m.start()].strip()
        some = 'Some(v_)' if kind == 'or_else' else 'v_'
        f.body = f.body[:st] + f'(match {recv} {{ Some(v_) => {some}, None => {inner.rstrip(",").strip()} }})' + f.body[close + 1:]
        n += 1
    if n:
        f.rewrites.append(('R6', f'{n}x `opt.or_else(|| E)` / `opt.unwrap_or_else(|| E)` / `opt.unwrap_or(E)` -> match (E verbatim)', ''))
    return f


def unmatches_macro(f):
    """R6: `matches!(E, PAT)` -> `(match E { PAT => true, _ => false })`; `matches!(E, PAT if GUARD)` -> `(match E { PAT => GUARD, _ => false })` (E, PAT, GUARD verbatim)"""
    n = 0
    while True:
        m = re.search(r'\bmatches!(\()', f.body)
        if not m:
            break
        close = match_brace(f.body, m.start(1))
        parts = _split_top_commas(f.body[m.start(1) + 1:close])
        if len(parts) < 2:
            break
        e, pat = parts[0].strip(), ','.join(parts[1:]).strip().rstrip(',').strip()
        mg = re.search(r'\s+if\s+', pat)
        if mg:
            pat, guard = pat[:mg.start()].strip(), pat[mg.end():].strip()
        else:
            guard = 'true'
        f.body = f.body[:m.start()] + f'(match {e} {{ {pat} => {guard}, _ => false }})' + f.body[close + 1:]
        n += 1
    if n:
        f.rewrites.append(('R6', f'{n}x matches!(E, PAT [if GUARD])', '(match E { PAT => GUARD / true, _ => false })'))
    return f


def pull_new_struct_fields(u, relpath, struct_name, known=(), key_types=('ExprId', 'WitnessId', 'usize', 'u32', 'bool')):
    """R14: the fields of the real `struct NAME { .. }` the unit's cut does not know (`known` = kept + deliberately dropped) and whose type is a plain value or a std collection of
    identifier types: each is carried into the unit's struct VERBATIM, so that a function under contract that consults a newly added bookkeeping field is judged through its
    postcondition (the field's content is whatever the code put there) instead of being refused (`no field`).  Returns the field lines ('' if nothing / unsupported type)."""
    from .extract import REPO, strip_comments
    import os
    try:
        src = strip_comments(open(os.path.join(REPO, relpath)).read())
    except OSError:
        return ''
    m = re.search(r'\bstruct\s+' + re.escape(struct_name) + r'\b[^{;]*\{', src)
    if not m:
        return ''
    close = match_brace(src, m.end() - 1)
    k = '|'.join(re.escape(t) for t in key_types)
    ok_ty = re.compile(r'^(?:(?:%s)|(?:HashSet|BTreeSet|Vec|VecDeque)<(?:%s)>|(?:HashMap|BTreeMap)<(?:%s),\s*(?:%s)>)$' % (k, k, k, k))
    out = []
    for fm in re.finditer(r'(?:pub(?:\([a-z]+\))?\s+)?(\w+)\s*:\s*([^,\n]+(?:<[^\n]*>)?)\s*,', src[m.end():close]):
        nm, ty = fm.group(1), fm.group(2).strip()
        if nm in known or not ok_ty.match(ty):
            continue
        out.append(f'    pub {nm}: {ty},')
        u.assumptions.append(f'R14: field {struct_name}.{nm}: {ty} (not in this unit\'s cut of the struct) carried verbatim; its content is unconstrained at function entry')
    return '\n'.join(out)


def pull_pure_type_helpers(u, relpath, type_name, known=(), rewrites=()):
    """R14: the methods of the inherent `impl TYPE { .. }` blocks of `relpath` that the unit does not know (`known`) and whose bodies are pure
    (no loop, no `&mut`, no `?`): each is emitted TWICE from the same text -- as `open spec fn NAME_spec` and as the executable `fn NAME` with the
    mechanically derived strongest postcondition `ret == NAME_spec(args)` -- so that a key / accessor helper introduced next to a function under contract
    is reasoned about by its body, not refused (unit does not build) and not havocked (no contract).  Returns the rendered text of an `impl TYPE` block ('' if nothing)."""
    from .extract import REPO, strip_comments
    import os
    try:
        src = strip_comments(open(os.path.join(REPO, relpath)).read())
    except OSError:
        return ''
    names = []
    for m in re.finditer(r'\bimpl\s+' + re.escape(type_name) + r'\s*\{', src):
        close = match_brace(src, m.end() - 1)
        for fm in re.finditer(r'\bfn\s+(\w+)', src[m.end():close]):
            if fm.group(1) not in known and fm.group(1) not in names:
                names.append(fm.group(1))
    out = []
    for nm in names:
        try:
            f = u.extract(relpath, r'impl\s+' + re.escape(type_name) + r'\s*\{?$|impl ' + re.escape(type_name) + r'\b(?!.*\bfor\b)', nm, f'{type_name}::{nm}[pure helper, derived postcondition]')
        except ExtractError:
            continue
        for pat_, repl_ in rewrites:
            f.rewrite_re('R11', pat_, repl_, where='sig', min_count=0)
            f.rewrite_re('R11', pat_, repl_, min_count=0)
        f.rewrite_re('R12', r'pub\(super\)\s*', '', where='sig', min_count=0)
        unlet_else_return(f)
        if re.search(r'\b(for|while|loop|return)\b|&mut\b|\?', f.body):
            continue
        sig = re.sub(r'^(pub(\([a-z]+\))?\s+)?(const\s+)?', '', f.sig.strip())
        sig = re.sub(r'\bSelf\b', type_name, sig)
        body = re.sub(r'\bSelf\b', type_name, f.body)
        mg = re.match(r'fn\s+(\w+)\s*(<[^>()]*>)?\s*\((.*)\)\s*->\s*(.+)$', sig, flags=re.S)
        if not mg:
            continue
        gen_ = mg.group(2) or ''
        class _M:  # (name, params, ret) view of the match
            def __init__(s_, g): s_.g = g
            def group(s_, i): return (s_.g.group(1), s_.g.group(3), s_.g.group(4))[i - 1]
        mp = _M(mg)
        params = [p.strip() for p in _split_top_commas(mp.group(2)) if p.strip()]
        args = []
        for p in params:
            if re.fullmatch(r'&?\s*self', p):
                continue
            args.append(p.split(':', 1)[0].strip())
        recv = 'self.' if params and re.fullmatch(r'&?\s*self', params[0]) else f'{type_name}::'
        f.sig, f.body = sig, body
        f.rewrites.append(('R14', f'the same text is also emitted as `open spec fn {nm}_spec`; the executable function gets the postcondition ret == {nm}_spec(..)', 'pure helper: no loop, no &mut, no ?'))
        f.ensures('is_its_own_body_read_as_a_specification', f'ret == {recv}{nm}_spec({", ".join(args)})')
        spec = f'pub open spec fn {nm}_spec{gen_}({mp.group(2)}) -> {mp.group(3)}\n{f.body}'
        out.append(spec + '\n' + f.render('pub'))
    if not out:
        return ''
    return 'verus! {\nimpl ' + type_name + ' {\n' + '\n'.join(out) + '\n}\n}\n'


def unthen_some(f):
    """R6: `(COND).then_some(V)` -> `(if COND { Some(V) } else { None })`"""
    n = 0
    while True:
        m = re.search(r'\)\s*\.\s*then_some(\()', f.body)
        if not m:
            break
        # the parenthesised condition ends at m.start(): find its opening parenthesis
        depth, i = 0, m.start()
        while i >= 0:
            if f.body[i] == ')':
                depth += 1
            elif f.body[i] == '(':
                depth -= 1
                if depth == 0:
                    break
            i -= 1
        if i < 0:
            break
        close = match_brace(f.body, m.start(1))
        cond = f.body[i + 1:m.start()].strip()
        val = f.body[m.start(1) + 1:close].strip()
        f.body = f.body[:i] + f'(if {cond} {{ Some({val}) }} else {{ None }})' + f.body[close + 1:]
        n += 1
    if n:
        f.rewrites.append(('R6', f'{n}x `(cond).then_some(v)` -> if/else', ''))
    return f


def unoption_and_then(f):
    """R6: `RECV.and_then(|x| BODY)` -> `(match RECV { Some(x) => BODY, None => None })` (BODY verbatim: an expression or a block)"""
    n = 0
    while True:
        m = re.search(r'\.\s*and_then(\()', f.body)
        if not m:
            break
        close = match_brace(f.body, m.start(1))
        mi = re.match(r'\s*\|\s*(\w+)\s*\|\s*(.*)$', f.body[m.start(1) + 1:close], flags=re.S)
        st = _receiver_start(f.body, m.start())
        if not mi or st < 0:
            break
        recv = f.body[st:m.start()].strip()
        f.body = f.body[:st] + f'(match {recv} {{ Some({mi.group(1)}) => {mi.group(2).strip().rstrip(",").strip()}, None => None }})' + f.body[close + 1:]
        n += 1
    if n:
        f.rewrites.append(('R6', f'{n}x `opt.and_then(|x| BODY)` -> match (BODY verbatim)', ''))
    return f


def uncollect_option_vec(f):
    """R5: `let X: Option<Vec<T>> = S.iter().map(|&c| BODY).collect();` (collect into an Option: None as soon as one element gives None) ->
    `let mut X_v_: Vec<T> = Vec::new(); let mut X_ok_ = true; for X_k_ in 0..S.len() { let c = S[X_k_]; match BODY { Some(v_) => { X_v_.push(v_); }, None => { X_ok_ = false; break; } } }
     let X = if X_ok_ { Some(X_v_) } else { None };`"""
    n = 0
    while True:
        m = re.search(r'let (\w+): Option<Vec<([^>]+)>> = (\w+)\s*\.iter\(\)\s*\.map(\()', f.body)
        if not m:
            break
        close = match_brace(f.body, m.start(4))
        mi = re.match(r'\s*\|\s*&(\w+)\s*\|\s*(.*)$', f.body[m.start(4) + 1:close], flags=re.S)
        me = re.match(r'\s*\.collect\(\)\s*;', f.body[close + 1:])
        if not mi or not me:
            break
        x, ty, src = m.group(1), m.group(2).strip(), m.group(3)
        body = mi.group(2).strip().rstrip(',').strip()
        new = (f'let mut {x}_v_: Vec<{ty}> = Vec::new(); let mut {x}_ok_ = true; for {x}_k_ in 0..{src}.len() {{ let {mi.group(1)} = {src}[{x}_k_]; '
               f'match {body} {{ Some(v_) => {{ {x}_v_.push(v_); }}, None => {{ {x}_ok_ = false; break; }} }} }} let {x} = if {x}_ok_ {{ Some({x}_v_) }} else {{ None }};')
        f.body = f.body[:m.start()] + new + f.body[close + 1 + me.end():]
        n += 1
    if n:
        f.rewrites.append(('R5', f'{n}x `let X: Option<Vec<T>> = s.iter().map(|&c| BODY).collect();` -> index loop with early exit (BODY verbatim)', ''))
    return f


def unlet_else_return(f):
    """R3: a top-level `let PAT = EXPR else { return R; };` followed by the rest of the function body -> `match EXPR { PAT => { REST }, _ => { R } }` (PAT, EXPR, R, REST verbatim)"""
    n = 0
    while True:
        inner = f.body.strip()[1:-1]
        stmts = _split_stmts(inner)
        hit = None
        for k, st in enumerate(stmts):
            m = re.match(r'\s*let\s+(.+?)\s*=\s*([^=;{}]+?)\s+else\s*\{\s*return\s+(.*?);?\s*\}\s*;\s*$', st, flags=re.S)
            if m:
                hit = (k, m)
                break
        if not hit:
            break
        k, m = hit
        rest = ''.join(stmts[k + 1:]).strip()
        f.body = '{' + ''.join(stmts[:k]) + f'\nmatch {m.group(2)} {{ {m.group(1)} => {{ {rest} }}, _ => {{ {m.group(3)} }} }}\n}}'
        n += 1
    if n:
        f.rewrites.append(('R3', f'{n}x top-level `let PAT = E else {{ return R; }};` + rest -> `match E {{ PAT => {{ rest }}, _ => R }}`', ''))
    return f


CHUNKS_STUBS = r'''
verus! {
/// `xs[lo..hi].to_vec()`
#[verifier::external_body]
pub fn slice_to_vec_<T: Copy>(xs: &Vec<T>, lo: usize, hi: usize) -> (r: Vec<T>) requires lo <= hi <= xs@.len() ensures r@ == xs@.subrange(lo as int, hi as int) { unimplemented!() }
/// usize::div_ceil
#[verifier::external_body]
pub fn chunks_count_(len: usize, n: usize) -> (r: usize) requires n > 0 ensures r * n >= len, (r as int - 1) * n < len || r == 0, (len == 0 ==> r == 0) { unimplemented!() }
}
'''


def unchunks_to_vec_collect(f):
    """R5: `let NAME: Vec<Vec<T>> = RECV.chunks(N).map(<[T]>::to_vec).collect();` (also `.map(|c| c.to_vec())`) ->
    `let all_NAME = RECV; let n_NAME = N; let mut NAME: Vec<Vec<T>> = Vec::new(); for k_NAME in 0..chunks_count_(all_NAME.len(), n_NAME) { NAME.push(slice_to_vec_(&all_NAME, k*n, min((k+1)*n, len))); }`
    (needs CHUNKS_STUBS; slice::chunks panics on N == 0: the stub's precondition)"""
    n = 0
    while True:
        m = re.search(r'let (\w+): Vec<Vec<(\w+)>> = ', f.body)
        hit = None
        for m in re.finditer(r'let (\w+): Vec<Vec<(\w+)>> = ', f.body):
            i, depth = m.end(), 0
            while i < len(f.body):
                ch = f.body[i]
                if ch in '({[':
                    depth += 1
                elif ch in ')}]':
                    depth -= 1
                elif ch == ';' and depth == 0:
                    break
                i += 1
            expr = f.body[m.end():i]
            mc = re.search(r'\.\s*chunks(\()', expr)
            if not mc:
                continue
            close = match_brace(expr, mc.start(1))
            rest = expr[close + 1:]
            if not re.fullmatch(r'\s*\.map\((?:<\[\w+\]>::to_vec|\|\s*(\w+)\s*\|\s*\1\.to_vec\(\))\)\s*\.collect\(\)\s*', rest):
                continue
            hit = (m, i, expr[:mc.start()].strip(), expr[mc.start(1) + 1:close].strip())
            break
        if not hit:
            break
        m, i, recv, nn = hit
        x, ty = m.group(1), m.group(2)
        new = (f'let all_{x}_ = {recv}; let n_{x}_: usize = {nn}; let mut {x}: Vec<Vec<{ty}>> = Vec::new(); let c_{x}_ = chunks_count_(all_{x}_.len(), n_{x}_); '
               f'for k_{x}_ in 0..c_{x}_ {{ let lo_ = k_{x}_ * n_{x}_; let hi_ = if lo_ + n_{x}_ < all_{x}_.len() {{ lo_ + n_{x}_ }} else {{ all_{x}_.len() }}; {x}.push(slice_to_vec_(&all_{x}_, lo_, hi_)); }}')
        f.body = f.body[:m.start()] + new + f.body[i + 1:]
        n += 1
    if n:
        f.rewrites.append(('R5', f'{n}x `let X: Vec<Vec<T>> = RECV.chunks(N).map(to_vec).collect();` -> index loop over ceil(len/N) sub-slices', ''))
    return f
