"""Run Verus on a generated unit, map every diagnostic to a named obligation."""
import json
import os
import re
import subprocess
import time

VERIFICATION_MSGS = (
    'postcondition not satisfied', 'precondition not satisfied', 'assertion failed',
    'invariant not satisfied', 'possible arithmetic', 'possible division by zero',
    'decreases not satisfied', 'possible bit shift', 'unreachable', 'recommendation not met',
    'loop invariant', 'might not be allowed', 'possible truncation', 'failed this',
    'could not prove termination', 'index out of bounds',
    'cannot show invariant', 'bitvector assertion', 'precondition not met', 'trait method ensures', 'ensures not satisfied', 'requires not satisfied',
)
UNDECIDED_MSGS = ('resource limit', 'rlimit', 'timed out', 'incomplete', 'z3 ')


def _tags(lines):
    """per line: (tagkind, label) from trailing `// @@K:label` comments; and the FN map"""
    tag = {}
    fn_at = {}
    cur = None
    for i, l in enumerate(lines, 1):
        m = re.search(r'//\s*@@FN:(\S+)', l)
        if m:
            cur = m.group(1)
        m2 = re.search(r'//\s*@@ENDFN:', l)
        if cur is None or (m2 is None and not m):
            mm = re.match(r'\s*(?:pub\s+)?(?:open\s+|closed\s+|broadcast\s+)*(?:proof\s+|spec\s+|exec\s+)?fn\s+(\w+)', l)
            if mm and (cur is None or cur.startswith('~')):
                cur = '~' + mm.group(1)
        fn_at[i] = (cur or '~toplevel').lstrip('~')
        if m2:
            cur = None
        m = re.search(r'//\s*@@([REIDA]):(\S+)', l)
        if m:
            tag[i] = (m.group(1), m.group(2))
    return tag, fn_at


def count_obligations(text):
    """Static count of the obligations a unit poses (measured on the generated text)."""
    lines = text.split('\n')
    n_clause = sum(1 for l in lines if re.search(r'//\s*@@[EID]:', l))
    n_assert = len(re.findall(r'\bassert\s*(?:\(|forall|by)', text)) + len(re.findall(r'\bassert\s+[a-z(!]', text))
    n_fn = len(re.findall(r'^\s*(?:pub\s+)?(?:proof\s+|exec\s+)?fn\s+\w+', text, flags=re.M))
    n_spec_fn = len(re.findall(r'^\s*(?:pub\s+)?(?:open\s+|closed\s+)*spec\s+fn\s+\w+', text, flags=re.M))
    return {'contract_clauses': n_clause, 'asserts': n_assert, 'fn_safety': n_fn, 'spec_fns': n_spec_fn,
            'total': n_clause + n_assert + n_fn}


def run_verus(unit_name, text, workdir, rlimit=30, seed=None, multiple_errors=30, timeout=900, threads=8):
    os.makedirs(workdir, exist_ok=True)
    path = os.path.join(workdir, f'{unit_name}.rs')
    with open(path, 'w') as f:
        f.write(text)
    cmd = ['verus', path, '--output-json', '--time', '--multiple-errors', str(multiple_errors),
           '--rlimit', str(rlimit), '--num-threads', str(threads), '--no-report-long-running']
    if seed is not None:
        cmd += ['--smt-option', f'smt.random_seed={seed}', '--smt-option', f'sat.random_seed={seed}']
    cmd += ['--', '--error-format=json']
    t0 = time.time()
    try:
        p = subprocess.run(cmd, capture_output=True, text=True, timeout=timeout, cwd=workdir)
        out, err, rc = p.stdout, p.stderr, p.returncode
    except subprocess.TimeoutExpired as e:
        return {'status': 'undecided', 'reason': f'verus timeout {timeout}s', 'cmd': ' '.join(cmd), 'wall_s': time.time() - t0,
                'failures': [], 'build_errors': [], 'undecided': [f'{unit_name}: timeout'], 'verified': 0, 'errors': 0, 'smt_ms': 0, 'path': path}
    wall = time.time() - t0
    lines = text.split('\n')
    tag, fn_at = _tags(lines)
    res = {'cmd': ' '.join(cmd), 'wall_s': wall, 'failures': [], 'build_errors': [], 'undecided': [], 'path': path,
           'verified': 0, 'errors': 0, 'smt_ms': 0, 'raw': []}
    try:
        j = json.loads(out[out.index('{'):]) if '{' in out else {}
    except Exception:
        j = {}
    vr = j.get('verification-results', {})
    res['verified'] = vr.get('verified', 0)
    res['errors'] = vr.get('errors', 0)
    tm = j.get('times-ms', {})
    res['smt_ms'] = (tm.get('smt', {}) or {}).get('total', 0) if isinstance(tm.get('smt'), dict) else 0
    res['total_ms'] = tm.get('total', 0)
    base = os.path.basename(path)
    for l in err.split('\n'):
        l = l.strip()
        if not l.startswith('{'):
            continue
        try:
            d = json.loads(l)
        except Exception:
            continue
        if d.get('level') not in ('error',):
            continue
        msg = d.get('message', '')
        if msg.startswith('aborting due to'):
            continue
        spans = d.get('spans', [])
        ours = [s for s in spans if os.path.basename(s.get('file_name', '')) == base]
        prim = [s for s in ours if s.get('is_primary')] or ours
        low = msg.lower()
        rendered = d.get('rendered', '')
        if any(u in low for u in UNDECIDED_MSGS):
            ln = prim[0]['line_start'] if prim else 0
            res['undecided'].append(f'{unit_name}.{fn_at.get(ln, "?")}: {msg}')
            continue
        if not any(v in low for v in VERIFICATION_MSGS):
            res['build_errors'].append(rendered or msg)
            continue
        ln = prim[0]['line_start'] if prim else 0
        fn = fn_at.get(ln, '?')
        srcline = ' '.join(re.sub(r'//\s*@@.*$', '', lines[ln - 1]).split()) if 0 < ln <= len(lines) else ''
        oid = None
        if 'postcondition' in low:
            # primary span is the failed ensures clause
            es = [s for s in ours if 'failed this postcondition' in (s.get('label') or '')] or prim
            l2 = es[0]['line_start'] if es else ln
            fn = fn_at.get(l2, fn)
            t = tag.get(l2)
            oid = f'{unit_name}.{fn}.ensures[{t[1] if t else srcline}]'
        elif 'invariant' in low:
            t = tag.get(ln)
            when = 'entry' if 'before' in low or 'entry' in low else 'preserved'
            oid = f'{unit_name}.{fn}.invariant[{t[1] if t else srcline}].{when}'
        elif 'precondition' in low:
            rs = [s for s in ours if 'failed precondition' in (s.get('label') or '')]
            if rs:
                l2 = rs[0]['line_start']
                t = tag.get(l2)
                callee = fn_at.get(l2, '?')
                lab = t[1] if t else ' '.join(lines[l2 - 1].split())
                oid = f'{unit_name}.{fn}.call[{callee}.requires[{lab}]]@{srcline}'
            else:
                oid = f'{unit_name}.{fn}.safety[precondition of library op]@{srcline}'
        elif 'assertion failed' in low:
            t = tag.get(ln)
            oid = f'{unit_name}.{fn}.assert[{t[1] if t else srcline}]'
        elif 'decreases' in low or 'could not prove termination' in low:
            oid = f'{unit_name}.{fn}.decreases@{srcline}'
        else:
            oid = f'{unit_name}.{fn}.safety[{msg}]@{srcline}'
        res['failures'].append({'id': oid, 'message': msg, 'line': ln, 'rendered': rendered})
    if rc != 0 and not res['failures'] and not res['build_errors'] and not res['undecided']:
        res['build_errors'].append('verus exited %d without diagnostics: %s' % (rc, err[-2000:]))
    # de-duplicate ids (multiple return sites give several diagnostics for one clause)
    seen = {}
    for f in res['failures']:
        seen.setdefault(f['id'], f)
    res['failures'] = list(seen.values())
    return res
